"""Runs one history of client calls in *this fresh process* and records it at the client boundary (C08).

usage: python -m gxv.history <spec.json> <out.json>
spec: {'requests': {rid: text or null (missing file)}, 'ops': [...], 'dirs': [d0, d1, ...]}
ops : {'op':'client','id':k,'caching':bool} | {'op':'call','client':k,'req':rid} | {'op':'rewrite','req':rid,'text':t}
      | {'op':'chdir','dir':i} | {'op':'rmdir','dir':i} | {'op':'params_call','client':k,'req':rid,'params':{..}}
"""
import contextlib
import hashlib
import io
import json
import logging
import os
import shutil
import sys
import tempfile


def _norm(lines):
    from gxv.runner import norm_report
    return norm_report(''.join(lines))


def global_state():
    """Module-level and class-level state of the simulator that a run has no business changing: the attributes of every
    enum member (option lists carry coefficients) and every module-level / class-level list, dict, set or tuple of plain
    values, in the simulator's own modules.  Returned as {qualified name: repr}."""
    import enum
    out = {}

    def plain(v, depth=0):
        if isinstance(v, (int, float, str, bool, type(None))):
            return True
        if isinstance(v, (list, tuple, set, frozenset)) and depth < 3:
            return len(v) <= 2000 and all(plain(x, depth + 1) for x in v)
        if isinstance(v, dict) and depth < 3:
            return len(v) <= 2000 and all(isinstance(k, (int, float, str)) and plain(x, depth + 1) for k, x in v.items())
        return False

    def show(v):
        if isinstance(v, (set, frozenset)):
            return repr(sorted(map(repr, v)))
        if isinstance(v, dict):
            return repr(sorted((repr(k), repr(x)) for k, x in v.items()))
        return repr(v)
    for modname, mod in list(sys.modules.items()):
        if mod is None or not (modname == 'geophires_x' or modname.startswith('geophires_x.') or modname.startswith('hip_ra_x')
                               or modname == 'geophires_x_client' or modname.startswith('geophires_x_client.')):
            continue
        for name, v in list(vars(mod).items()):
            if name.startswith('__'):
                continue
            q = f'{modname}.{name}'
            if isinstance(v, (list, dict, set)) and plain(v):
                out[q] = show(v)
            elif isinstance(v, type) and getattr(v, '__module__', None) == modname:
                if issubclass(v, enum.Enum):
                    for member in v:
                        attrs = {k: x for k, x in vars(member).items() if k not in ('_value_', '_name_', '__objclass__', '_sort_order_')
                                 and plain(x)}
                        out[f'{q}.{member.name}'] = show(attrs)
                else:
                    for k, x in list(vars(v).items()):
                        if not k.startswith('__') and isinstance(x, (list, dict, set)) and plain(x):
                            out[f'{q}.{k}'] = show(x)
    return out


def _result_sha(res):
    d = {k: v for k, v in (getattr(res, 'result', None) or {}).items() if k not in ('metadata', 'Simulation Metadata')}
    return hashlib.sha1(json.dumps(d, sort_keys=True, default=str).encode()).hexdigest()


def main():
    from gxv import env
    env.bootstrap()
    os.environ.pop(env.GUARD, None)            # histories run the client exactly as a user would: hooks off
    spec_path, out_path = sys.argv[1], sys.argv[2]
    with open(spec_path, encoding='utf-8') as f:
        spec = json.load(f)
    root = tempfile.mkdtemp(prefix='gxvh-', dir=os.environ.get('GXV_TMP'))
    os.environ['TMPDIR'] = root
    tempfile.tempdir = root
    from pathlib import Path
    from geophires_x_client import GeophiresInputParameters, GeophiresXClient
    logging.disable(logging.CRITICAL)
    dirs = []
    for i in range(int(spec.get('ndirs', 3))):
        d = os.path.join(root, f'dir{i}')
        os.makedirs(d)
        dirs.append(d)
    os.chdir(dirs[0])
    paths = {}
    texts = {}
    for rid, text in spec['requests'].items():
        p = os.path.join(root, f'req_{rid}.txt')
        if text is not None:
            with open(p, 'w', encoding='utf-8') as f:
                f.write(text)
        paths[rid] = p
        texts[rid] = text
    clients = {}
    inputs = {}             # (client, rid) -> GeophiresInputParameters (re-used so the cache key repeats)
    hist = []
    returned = []
    state0 = None
    for step, op in enumerate(spec['ops']):
        kind = op['op']
        if kind == 'client':
            clients[op['id']] = GeophiresXClient(enable_caching=bool(op['caching']))
        elif kind == 'rewrite':
            texts[op['req']] = op['text']
            if op['text'] is None:
                with contextlib.suppress(OSError):
                    os.remove(paths[op['req']])          # the request file goes missing
            else:
                with open(paths[op['req']], 'w', encoding='utf-8') as f:
                    f.write(op['text'])
            hist.append({'step': step, 'op': 'rewrite', 'req': op['req']})
        elif kind == 'chdir':
            os.chdir(dirs[op['dir']])
            hist.append({'step': step, 'op': 'chdir', 'dir': op['dir']})
        elif kind == 'rmdir':
            # only a directory we are not standing in
            if os.path.realpath(dirs[op['dir']]) != os.path.realpath(os.getcwd()):
                shutil.rmtree(dirs[op['dir']], ignore_errors=True)
            hist.append({'step': step, 'op': 'rmdir', 'dir': op['dir']})
        elif kind == 'call':
            rid = op['req']
            key = (op['client'], rid) if op.get('reuse_params', True) else None
            ip = inputs.get(key) if key else None
            if ip is None:
                ip = GeophiresInputParameters(from_file_path=Path(paths[rid]))
                if key:
                    inputs[key] = ip
            cwd0 = os.getcwd()
            argv0 = list(map(str, sys.argv))
            argv_obj0 = sys.argv
            rec = {'step': step, 'op': 'call', 'client': op['client'], 'req': rid,
                   'text_sha': None if texts[rid] is None else hashlib.sha1(texts[rid].encode()).hexdigest(),
                   'cwd_before': cwd0, 'argv_before': argv0}
            try:
                with contextlib.redirect_stdout(io.StringIO()), contextlib.redirect_stderr(io.StringIO()):
                    res = clients[op['client']].get_geophires_result(ip)
                rec['outcome'] = 'ok'
                rec['report'] = _norm(res._lines)
                # the parsed result as handed back (metadata = version / date stamps excluded); the object is kept so that it
                # can be looked at again when the history is over: what a client returned must not change afterwards
                rec['result_sha'] = _result_sha(res)
                returned.append((rec, res))
            except BaseException as ex:  # noqa
                if isinstance(ex, KeyboardInterrupt):
                    raise
                rec['outcome'] = 'error'
                rec['error'] = f'{type(ex).__name__}: {str(ex)[:200]}'
            try:
                rec['cwd_after'] = os.getcwd()
            except OSError as ex:
                rec['cwd_after'] = 'UNAVAILABLE:' + type(ex).__name__
            rec['argv_after'] = list(map(str, sys.argv))
            rec['argv_same_object'] = sys.argv is argv_obj0
            # process-global state of the simulator's modules: whatever it is after the first call, later calls must leave it so
            st = global_state()
            if state0 is None:
                state0 = st
                rec['global_state_items'] = len(st)
            else:
                changed = sorted(k for k in set(st) | set(state0) if st.get(k) != state0.get(k))
                rec['global_state_items'] = len(st)
                rec['global_state_changed'] = [{'name': k, 'first': (state0.get(k) or '')[:120], 'now': (st.get(k) or '')[:120]} for k in changed[:5]]
            hist.append(rec)
            # a harness must not let one violation cascade: restore what the caller had
            with contextlib.suppress(OSError):
                os.chdir(cwd0)
            sys.argv = argv_obj0
    for rec, res in returned:
        rec['result_sha_at_end'] = _result_sha(res)
    with open(out_path, 'w', encoding='utf-8') as f:
        json.dump({'history': hist, 'hashseed': os.environ.get('PYTHONHASHSEED')}, f)
    os.chdir('/')
    shutil.rmtree(root, ignore_errors=True)


if __name__ == '__main__':
    main()
