"""C14 Monte Carlo rows are reproducible and the statistics describe them.

Same harness as C13 (real MC client, forced worker counts, sleeps around the lock-guarded append, failure rates 0 / 30 /
90 %).  Offline checker over the recorded result file: every line matches the row grammar, each row re-simulated from
the base input plus its recorded sampled values yields exactly the row's output strings in header order, the reported
statistics equal those recomputed from the rows (text to 2 decimals, JSON to 1e-12) and JSON equals text."""
import hashlib
import json
import math

import numpy as np

from .. import mc, runner
from .. import report as RP
from ..pool import Pool


def _hip_report(text):
    """Re-simulate one HIP-RA-X input through its real client; returns the report text."""
    import contextlib
    import io
    import logging
    import os
    from pathlib import Path
    from hip_ra import HipRaInputParameters
    from hip_ra_x import HipRaXClient
    wd = runner.workdir()
    p = Path(wd, f'hip_{abs(hash(text)) % 10**9}.txt')
    p.write_text(text, encoding='utf-8')
    logging.disable(logging.CRITICAL)
    try:
        with contextlib.redirect_stdout(io.StringIO()), contextlib.redirect_stderr(io.StringIO()):
            ip = HipRaInputParameters(file_path_or_params_dict=p)
            res = HipRaXClient().get_hip_ra_result(ip)
        with open(res.output_file_path, encoding='utf-8') as f:
            rep = f.read()
        with contextlib.suppress(OSError):
            os.remove(res.output_file_path)
        return rep
    finally:
        logging.disable(logging.NOTSET)
        with contextlib.suppress(OSError):
            p.unlink()


def _extract(report, output):
    """The figure printed on the line labelled exactly `output` (first occurrence), as text."""
    lines, _, _ = RP.tokenize(report)
    for ln in lines:
        if ln.label == output:
            return ln.text
    return None


def mc14_job(settings, workers, delay, max_replay, layout=False):
    import random
    from ..verdict import Mon
    mon = Mon('C14')
    out = mc.run_mc(settings, workers=workers, delay=delay, base_text=settings.get('base_text'))
    tag = {'program': settings['program'], 'iterations': settings['iterations'], 'workers': workers, 'delay': delay,
           'failure': settings['failure']}
    info = {'rows': 0, 'replayed': 0, 'error': out.get('error'), 'wall': out['wall'], 'events': len(out['events'])}
    if not out.get('result_text'):
        mon.inconclusive('row-grammar', 'no-result-file')
        return {'mon': mon.dump(), 'info': info}
    _mc14_judge(mon, out, settings, tag, info, max_replay, layout)
    if isinstance(info.get('layouts'), set):
        if len(info['layouts']) >= 2:
            mon.ok('distinct-report-layouts-among-replayed-rows', len(info['layouts']))
        info['layouts'] = sorted(info['layouts'])
    return {'mon': mon.dump(), 'info': info}


def _mc14_judge(mon, out, settings, tag, info, max_replay, layout):
    import random
    header, rows, bad, stats = mc.parse_result(out['result_text'], settings)
    info['rows'] = len(rows)
    base = settings.get('base_text') or (mc.GEO_BASE if settings['program'] == 'GEOPHIRES' else mc.HIP_BASE)
    names = [nm for nm, _ in settings['inputs']]
    want_header = ', '.join(settings['outputs'] + names)
    mon.check('header', header == want_header, mechanism='C14/header-differs-from-outputs-then-inputs', header=header[:200],
              want=want_header[:200], **tag)
    mon.check('row-grammar', not bad, mechanism='C14/torn-or-interleaved-line', bad=bad[:3], rows=len(rows), **tag)
    nout = len(settings['outputs'])
    for r in rows:
        if len(r['outputs']) != nout or [k for k, _ in r['inputs']] != names:
            mon.bad('row-grammar', mechanism='C14/row-has-wrong-number-of-columns', row=r['raw'][:200], **tag)
            break
    else:
        mon.ok('row-grammar', len(rows))
    # ---- replay rows
    rng = random.Random(len(out['result_text']))
    sel = rows if len(rows) <= max_replay else rng.sample(rows, max_replay)
    for r in sel:
        text = base + ''.join(f'{k}, {v}\n' for k, v in r['inputs'])
        try:
            if settings['program'] == 'GEOPHIRES':
                res = runner.run_text(text, want_snap=False)
                rep = res.report if res.ok else None
                err = None if res.ok else f'{res.exc_type}: {res.exc_msg}'
            else:
                rep, err = _hip_report(text), None
        except Exception as ex:  # noqa
            rep, err = None, f'{type(ex).__name__}: {str(ex)[:120]}'
        if rep is None:
            mon.bad('row-replay', mechanism='C14/row-of-an-input-that-does-not-simulate', error=err, row=r['raw'][:200], **tag)
            continue
        got = [_extract(rep, o) for o in settings['outputs']]
        info['replayed'] += 1
        if layout:
            # rows whose report layout differs from the first replayed row's (number of lines): the clause below counts them
            nl = rep.count('\n')
            info.setdefault('layouts', set()).add(nl)
            mon.check('row-replay-with-varying-report-layout', got == r['outputs'],
                      mechanism='C14/row-not-reproducible-from-its-recorded-inputs:report-layout-varies-between-iterations',
                      row_outputs=r['outputs'], resimulated=got, inputs=r['inputs'][:3], **tag)
        mon.check('row-replay', got == r['outputs'], mechanism='C14/row-not-reproducible-from-its-recorded-inputs',
                  row_outputs=r['outputs'], resimulated=got, inputs=r['inputs'][:3], **tag)
        if any((g or '').startswith('-') for g in got):
            # signed figures: the report prints a negative value for at least one requested output of this row
            mon.check('row-replay-signed', got == r['outputs'], mechanism='C14/row-not-reproducible-from-its-recorded-inputs:negative-output',
                      row_outputs=r['outputs'], resimulated=got, **tag)
    # ---- statistics
    if rows and out.get('json_text') and all(len(r['outputs']) == nout for r in rows):
        try:
            mat = np.array([[float(x) for x in r['outputs']] for r in rows], dtype=float)
        except ValueError:
            mat = None
            mon.note('non-numeric-output-in-rows')
        if mat is not None:
            ref = {'minimum': np.nanmin(mat, 0), 'maximum': np.nanmax(mat, 0), 'median': np.nanmedian(mat, 0),
                   'average': np.average(mat, 0), 'mean': np.nanmean(mat, 0), 'standard deviation': np.nanstd(mat, 0)}
            try:
                js = json.loads(out['json_text'])
            except ValueError:
                js = None
                mon.bad('statistics-json', mechanism='C14/json-summary-not-parseable', **tag)
            for i, o in enumerate(settings['outputs']):
                for k, arr in ref.items():
                    w = float(arr[i])
                    if js is not None:
                        g = (js.get(o) or {}).get(k)
                        mon.check('statistics-json', g is not None and abs(float(g) - w) <= 1e-12 * max(1.0, abs(w)),
                                  mechanism='C14/json-statistic-differs-from-rows:' + k, output=o, stat=k, reported=g, recomputed=w,
                                  rows=len(rows), **tag)
                    t = (stats.get(o) or {}).get(k)
                    mon.check('statistics-text', t == f'{w:,.2f}', mechanism='C14/text-statistic-differs-from-rows:' + k, output=o,
                              stat=k, reported=t, recomputed=f'{w:,.2f}', **tag)
                    if js is not None and (js.get(o) or {}).get(k) is not None:
                        mon.check('json-equals-text', t == f'{float(js[o][k]):,.2f}', mechanism='C14/json-summary-differs-from-text',
                                  output=o, stat=k, text=t, json=js[o][k], **tag)
    elif rows and not out.get('json_text'):
        mon.bad('statistics-json', mechanism='C14/no-json-summary-although-rows-exist', error=out.get('error'), **tag)
    if settings['failure'] and rows:
        mon.note('failing-subset-run-with-surviving-rows')
    # ---- an iteration that fails affects only its own row: every requested iteration is started by some worker (hook event
    # 'begin' with the sampled inputs), and the rows are those of the started iterations that completed
    begins = {e['input'] for e in out['events'] if e['stage'] == 'begin' and e.get('tail') is not None}
    done = {e['input'] for e in out['events'] if e['stage'] == 'after_print'}
    if out['events']:
        lost = settings['iterations'] - len(begins)
        mon.check('failure-affects-only-its-own-row', lost == 0 and len(rows) == len(begins & done),
                  mechanism='C14/iterations-never-run-after-another-iteration-failed' if lost > 0 and settings['failure']
                  else ('C14/iterations-never-run' if lost > 0 else 'C14/rows-differ-from-completed-iterations'),
                  requested=settings['iterations'], started=len(begins), completed=len(begins & done), rows=len(rows), **tag)
    return {'mon': mon.dump(), 'info': info}


def run(ctx):
    from .c13 import schedules
    plans = schedules(ctx)
    jobs = [{'fn': 'gxv.props.c14:mc14_job', 'args': {'settings': st, 'workers': w, 'delay': d, 'max_replay': ctx.pick(40, 150)},
             'timeout': 1200 + 2 * st['iterations']} for st, w, d in plans]
    # directed run: a loss-making project, so that requested outputs are negative (NPV, VIR, MOIC) in every row
    st = mc.make_settings(ctx.rng, 'GEOPHIRES', ctx.pick(24, 120), n_inputs=3, n_outputs=1)
    lossy = mc.GEO_BASE.replace('Starting Electricity Sale Price, 0.12', 'Starting Electricity Sale Price, 0.02') \
        .replace('Ending Electricity Sale Price, 0.12', 'Ending Electricity Sale Price, 0.02')
    assert lossy != mc.GEO_BASE
    outs = ['Average Net Electricity Production', 'Electricity breakeven price', 'Project NPV', 'Project VIR=PI=PIR', 'Project MOIC']
    st['outputs'] = outs
    st['text'] = '\n'.join([ln for ln in st['text'].split('\n') if ln.startswith('INPUT')] + [f'OUTPUT, {o}' for o in outs]
                           + [f'ITERATIONS, {st["iterations"]}']) + '\n'
    st['base_text'] = lossy
    # ... and one sampled name is a proper prefix of another parameter the base sets ('Inflation Rate During Construction')
    inputs = [(nm, d) for nm, d in st['inputs'] if nm != 'Inflation Rate'] + [('Inflation Rate', ['uniform', 0.01, 0.04])]
    st['inputs'] = inputs
    st['text'] = '\n'.join([f'INPUT, {nm}, {d[0]}, ' + ', '.join(str(x) for x in d[1:]) for nm, d in inputs]
                           + [f'OUTPUT, {o}' for o in outs] + [f'ITERATIONS, {st["iterations"]}']) + '\n'
    jobs.append({'fn': 'gxv.props.c14:mc14_job', 'args': {'settings': st, 'workers': 4, 'delay': 0.0, 'max_replay': ctx.pick(24, 80)},
                 'timeout': 1500})
    # directed run: a sampled input that changes the LAYOUT of the report from one iteration to the next (the number of
    # gradient segments: each segment adds lines to RESOURCE CHARACTERISTICS), requested outputs printed before and after
    # the lines that move, several iterations per worker.  A draw of 0 segments is an invalid input: that iteration fails.
    lay_base = mc.GEO_BASE + 'Gradient 2, 41\nThickness 1, 1.3\nGradient 3, 33\nThickness 2, 0.9\nGradient 4, 30\nThickness 3, 0.6\n'
    lay_inputs = [('Number of Segments', ['binomial', 4, 0.6]), ('Gradient 1', ['uniform', 48, 75]),
                  ('Utilization Factor', ['uniform', 0.7, 0.95])]
    lay_outs = ['Average Net Electricity Production', 'Project NPV', 'Bottom-hole temperature', 'Average Production Temperature',
                'Total capital costs', 'Average Pumping Power']
    n_lay = ctx.pick(72, 240)
    lay = {'program': 'GEOPHIRES', 'inputs': lay_inputs, 'outputs': lay_outs, 'iterations': n_lay, 'failure': 0.0,
           'base_text': lay_base,
           'text': '\n'.join([f'INPUT, {nm}, {d[0]}, ' + ', '.join(str(x) for x in d[1:]) for nm, d in lay_inputs]
                             + [f'OUTPUT, {o}' for o in lay_outs] + [f'ITERATIONS, {n_lay}']) + '\n'}
    jobs.append({'fn': 'gxv.props.c14:mc14_job', 'args': {'settings': lay, 'workers': 4, 'delay': 0.0, 'max_replay': ctx.pick(60, 160),
                                                         'layout': True},
                 'timeout': 1500})
    jobs.sort(key=lambda j: -j['args']['settings']['iterations'])
    rows = replayed = 0
    with Pool(5) as pool:
        for r in pool.map(jobs, timeout=3000):
            a = r.job['args']
            st = a['settings']
            ctx.evaluations += st['iterations']
            if r.status != 'ok':
                ctx.job_inconclusive(r.detail)
                continue
            v = r.value
            case = {'settings': st, 'workers': a['workers'], 'delay': a['delay']}
            ctx.mon.merge(v['mon'], case=case)
            rows += v['info']['rows']
            replayed += v['info']['replayed']
            if v['info']['rows'] >= 1:
                ctx.distinct.add(hashlib.sha1(json.dumps([st['text'], a['workers'], a['delay']]).encode()).hexdigest())
            ctx.sample({'settings': st['text'].split('\n')[:-1], 'workers': a['workers'], 'delay_s': a['delay'],
                        'rows': v['info']['rows'], 'rows_replayed': v['info']['replayed'], 'mc_error': v['info']['error']}, limit=4)
    ctx.coverage.update({'mc_runs': len(jobs), 'rows_observed': rows, 'rows_replayed': replayed})
    ctx.required.update({'row-grammar': 200, 'row-replay': 150, 'statistics-json': 60, 'statistics-text': 60, 'json-equals-text': 60,
                         'header': 8, 'row-replay-signed': 10, 'failure-affects-only-its-own-row': 8,
                         'row-replay-with-varying-report-layout': 30, 'distinct-report-layouts-among-replayed-rows': 2})
    if not ctx.mon.viols and ctx.mon.notes.get('failing-subset-run-with-surviving-rows', 0) == 0:
        ctx.required['failing-subset-observed'] = 1
    ctx.rule = ('the C13 schedule family (GEOPHIRES fast base and HIP-RA-X; iterations {1,3,16,17,40,120,300(,1000)}; 1/2/4/16/32 '
                'workers; 0/4/20 ms sleeps around the lock-guarded append; failure rates 0/30/90 %); per run every line of the '
                'result file is matched against the row grammar, up to 40 (thorough 150) rows are re-simulated from the base '
                'input plus the row\'s recorded values through the real simulator and compared string-for-string with the '
                'row, and all six statistics of every requested output are recomputed from the rows; distinct = (settings '
                'text, worker count, delay) with at least one row')
    ctx.assumptions += ['requested outputs are ones that exist in every report of the base (conditionally printed or N/A-able '
                        'outputs abort the driver\'s statistics; they are outside the quick tier)']


def replay(ctx, payload):
    case = payload.get('case') or {}
    st = case.get('settings')
    if not st:
        print('replay: no settings in payload')
        return 2
    v = mc14_job(st, case.get('workers'), case.get('delay', 0.0), 150)
    ctx.mon.merge(v['mon'], case=case)
    ctx.evaluations = st['iterations']
    for vv in ctx.mon.viols[:10]:
        print('replayed violation:', vv['mechanism'], str(vv['witness'])[:300])
    return 1 if ctx.mon.viols else 0
