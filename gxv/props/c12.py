"""C12 Input-file layout is irrelevant: one parameter set rendered many ways must give the identical report."""
import hashlib

from .. import gen
from ..pool import Pool

COMMENT_LINES = ['# a comment', '-- another comment', '* starred comment', '#Reservoir Depth, 9.9', '-- Plant Lifetime, 3',
                 '* End-Use Option, 2', '# , ,', '--- [deg.C/km]', '#', '*****', '# Units:Well depth, ft', '']
TRAILING = ['', ',', ', --- [unit] comment', ',comment without dashes', ', a comment, with, commas', ',\t--- tabbed',
            ', -- Plant Lifetime, 99', ',  ']


LIST_FORM = ('Gradients', 'Thicknesses')


def list_form(case):
    """The same parameter set with the per-segment gradients and thicknesses written as the list-valued parameters
    'Gradients, g1, g2, ...' / 'Thicknesses, t1, t2, ...' (both spellings are read by Reservoir.read_parameters)."""
    n = gen.cget(case, 'Number of Segments') or 1
    gs = [gen.cget(case, f'Gradient {k}') for k in range(1, n + 1)]
    ts = [gen.cget(case, f'Thickness {k}') for k in range(1, n)]
    if n < 2 or any(x is None for x in gs + ts):
        return None
    out = [kv for kv in case if not (kv[0].startswith('Gradient ') or kv[0].startswith('Thickness '))]
    out.append(['Gradients', ', '.join(gen.fmt(g) for g in gs)])
    out.append(['Thicknesses', ', '.join(gen.fmt(t) for t in ts)])
    return out


def render_variant(rng, case, raw, style):
    """One decorated / permuted rendering of the parameter set `case` (list of [name, value]) + raw directive lines."""
    items = [(k, gen.fmt(v)) for k, v in case]
    # --- permutation: add-on lines and duplicated keys keep their relative order
    names = [k for k, _ in items]
    dup = {k for k in names if names.count(k) > 1}
    fixed_idx = [i for i, (k, _) in enumerate(items) if k.startswith('AddOn ') or k in dup]
    if style.get('permute'):
        free_idx = [i for i in range(len(items)) if i not in set(fixed_idx)]
        order = free_idx[:]
        rng.shuffle(order)
        # merge: walk positions, fill free slots with the shuffled free items, fixed items stay in relative order but may
        # move as a group position-wise
        merged = order + fixed_idx
        slots = sorted(rng.sample(range(len(merged) + 1), 0))
        # insert each fixed item (in order) at increasing random positions among the free ones
        out = [items[i] for i in order]
        pos = sorted(rng.randint(0, len(out)) for _ in fixed_idx)
        for off, (p, i) in enumerate(zip(pos, fixed_idx)):
            out.insert(p + off, items[i])
        items = out
    lines = []
    for k, v in items:
        # --- inserted duplicates: an earlier occurrence (valid-but-different or invalid) must not matter
        if style.get('duplicates') and not k.startswith('AddOn ') and rng.random() < (0.15 if k not in LIST_FORM else 0.9):
            r = rng.random()
            if k in LIST_FORM:
                # list-valued parameter: an earlier occurrence with other (valid) values
                try:
                    other = ', '.join(gen.fmt(round(float(x) * rng.choice([0.5, 0.8, 1.25]), 4)) for x in v.split(','))
                except ValueError:
                    other = v
                lines.append(f'{k}, {other}')
            elif r < 0.3:
                lines.append(f'{k}, not-a-number')
            elif r < 0.5:
                lines.append(f'{k}, -123456789')
            elif r < 0.8:
                # valid-but-different: a nearby number (an earlier occurrence must not matter whatever it says)
                try:
                    f = float(v)
                    lines.append(f'{k}, {gen.fmt(round(f * rng.choice([0.97, 1.02]), 6)) if f != int(f) else gen.fmt(int(f) + rng.choice([1, 2]))}')
                except ValueError:
                    lines.append(f'{k}, {v}')
            else:
                lines.append(f'{k}, {v}')
        name, val = k, v
        if style.get('whitespace'):
            name = rng.choice(['', ' ', '\t', '   ']) + name + rng.choice(['', ' ', '\t', '  '])
            val = rng.choice(['', ' ', '\t', '    ']) + val + rng.choice(['', ' ', '\t'])
        else:
            val = ' ' + val
        tail = rng.choice(TRAILING) if style.get('trailing') else ''
        if k in LIST_FORM and tail.strip(', \t') and '--' not in tail:
            # for a list-valued parameter text after a further comma is a list entry by design; only '--' starts a comment
            # (with or without a comma between the last value and the dashes; the comment itself may contain commas)
            # the forms without a comma only where the reader supports them: a list of at least two values (with a single value,
            # as for any scalar parameter, the text up to the next comma is the value-with-unit field)
            forms = [', --- [unit] comment', ',\t-- tabbed']
            if v.count(',') >= 1:
                forms += [' -- equal layers [km]', ' --- a comment, with, commas', '-- glued to the value']
            tail = rng.choice(forms)
        lines.append(f'{name},{val}{tail}')
        if style.get('comments') and rng.random() < 0.25:
            lines.append(rng.choice(COMMENT_LINES))
        if style.get('blank') and rng.random() < 0.2:
            lines.append(rng.choice(['', '   ', '\t']))
    for rl in raw:
        lines.append(rl + (',' if style.get('trailing') and rng.random() < 0.5 else ''))
    if style.get('comments'):
        lines.insert(0, rng.choice(COMMENT_LINES))
    eol = style.get('eol', '\n')
    text = eol.join(lines)
    if not style.get('no_final_newline'):
        text += eol
    return text


STYLES = [
    {'permute': True},
    {'comments': True, 'blank': True},
    {'trailing': True},
    {'whitespace': True},
    {'eol': '\r\n'},
    {'eol': '\r'},
    {'no_final_newline': True},
    {'duplicates': True},
    {'permute': True, 'comments': True, 'blank': True, 'trailing': True, 'whitespace': True, 'duplicates': True, 'eol': '\r\n'},
    {'permute': True, 'trailing': True, 'whitespace': True, 'duplicates': True, 'no_final_newline': True},
]


def variants_job(texts):
    from .. import jobs
    outs = jobs.multi_run(texts, want_report=True, want_extract=False)
    return [{'ok': o['ok'], 'exc_type': o['exc_type'], 'exc_msg': o['exc_msg'],
             'sha': hashlib.sha1((o.get('report') or '').encode()).hexdigest() if o.get('report') else None,
             'report': o.get('report') if i == 0 else None, 'report_v': o.get('report')} for i, o in enumerate(outs)]


def run(ctx):
    rng = ctx.rng
    bases = []
    cells = gen.grid_cells(res_models=(3, 4))
    rng.shuffle(cells)
    for i in range(ctx.pick(70, 900)):
        cell = cells[i % len(cells)]
        bases.append((gen.synth_case(rng, cell), [], {'cell': list(cell)}, 300))
    # list-valued spellings of the segment profile (directed: the grid writes 'Gradient k' scalars)
    for i in range(ctx.pick(10, 80)):
        cell = cells[(i * 7) % len(cells)]
        lf = list_form(gen.synth_case(rng, cell, nseg=rng.choice([2, 3, 4])))
        if lf is not None:
            bases.append((lf, [], {'cell': list(cell), 'list_form': True}, 300))
    # feature combinations that are detected from the mere presence of their keys (add-ons, S-DAC-GT, both): key order varies
    # under permutation
    for i in range(ctx.pick(12, 90)):
        cell = cells[(i * 5) % len(cells)]
        bases.append((gen.synth_case(rng, cell, addons=i % 3 != 1, sdac=i % 3 != 0), [], {'cell': list(cell), 'features': 'addons/sdac'}, 300))
    slow = gen.grid_cells(res_models=(1, 2))
    rng.shuffle(slow)
    for i in range(ctx.pick(4, 60)):
        bases.append((gen.synth_case(rng, slow[i % len(slow)]), [], {'cell': list(slow[i % len(slow)])}, 600))
    names = gen.FAST_EXAMPLES + (['example1_addons', 'example_ITC', 'example12_DH', 'example1_outputunits'] if ctx.quick
                                 else gen.SLOW_EXAMPLES + ['example1_outputunits'])
    for name in names:
        case, raw = gen.example_case(name)
        bases.append((case, raw, {'example': name}, 900))
    jobs = []
    for case, raw, tag, to in bases:
        canon = gen.render(case, raw)
        k = ctx.pick(6, len(STYLES))
        styles = STYLES if not ctx.quick else [STYLES[-2], STYLES[-1]] + rng.sample(STYLES[:-2], k - 2)
        texts = [canon] + [render_variant(rng, case, raw, st) for st in styles]
        jobs.append({'fn': 'gxv.props.c12:variants_job', 'args': {'texts': texts}, 'timeout': to,
                     'meta': {'tag': tag, 'styles': styles}})
    mon = ctx.mon
    with Pool(16) as pool:
        for r in pool.map(jobs, timeout=900):
            n = len(r.job['args']['texts'])
            ctx.evaluations += n
            if r.status != 'ok':
                ctx.job_inconclusive(r.detail)
                continue
            outs = r.value
            meta = r.job['meta']
            texts = r.job['args']['texts']
            canon = outs[0]
            if not canon['ok']:
                ctx.reject(canon['exc_type'], canon['exc_msg'])
                continue
            for i in range(1, n):
                o = outs[i]
                st = meta['styles'][i - 1]
                case = {'canonical': texts[0], 'variant': texts[i], 'style': st, 'tag': meta['tag']}
                if not o['ok']:
                    mon.bad('same-report', mechanism='C12/decorated-or-permuted-input-rejected:' + _style_key(st),
                            error=f"{o['exc_type']}: {o['exc_msg']}", style=st, tag=meta['tag'])
                    mon.viols[-1]['case'] = case
                    continue
                same = o['sha'] == canon['sha']
                diff = None
                if not same:
                    a, b = (canon.get('report') or '').split('\n'), (o.get('report_v') or '').split('\n')
                    for ln, (x, y) in enumerate(zip(a, b)):
                        if x != y:
                            diff = {'line': ln, 'canonical': x[:110], 'variant': y[:110]}
                            break
                    if diff is None:
                        diff = {'len_canonical': len(a), 'len_variant': len(b)}
                mon.check('same-report', same, mechanism='C12/report-depends-on-layout:' + _style_key(st), first_difference=diff,
                          style=st, tag=meta['tag'])
                if not same:
                    mon.viols[-1]['case'] = case
                if st.get('duplicates'):
                    mon.ok('last-duplicate-governs') if same else None
            ctx.distinct.add(gen.case_hash(texts[0]))
            ctx.sample({'tag': meta['tag'], 'styles': meta['styles'][:3], 'variant_head': texts[-1].replace('\r', '\\r').split('\n')[:6]},
                       limit=3)
    ctx.required.update({'same-report': 300, 'last-duplicate-governs': 60})
    ctx.rule = ('parameter sets from the configuration grid and shipped examples (incl. add-ons, a duplicated key, an output-'
                'units directive), each rendered canonically and in 6-10 decorated ways: random permutation of the parameter '
                'lines (add-on lines and duplicated keys keep their relative order), blank lines, #/--/* comment lines (also '
                'ones that look like parameters), trailing comments after a second comma (with and without --, with commas), '
                'spaces/tabs around names and values, \\n / \\r\\n / \\r endings, missing final newline, inserted earlier '
                'duplicates (valid-but-different or invalid); all renderings must give the identical normalised report; '
                'distinct by content hash of the canonical rendering; every set is non-trivial (>= 6 renderings)')


def _style_key(st):
    return '+'.join(sorted(k if v is True else f'{k}={v!r}' for k, v in st.items()))


def replay(ctx, payload):
    case = payload.get('case') or {}
    if not case.get('canonical'):
        print('replay: no case')
        return 2
    outs = variants_job([case['canonical'], case['variant']])
    same = outs[0]['ok'] and outs[1]['ok'] and outs[0]['sha'] == outs[1]['sha']
    ctx.evaluations = 2
    ctx.mon.check('same-report', same, mechanism='C12/report-depends-on-layout:' + _style_key(case.get('style', {})),
                  canon_ok=outs[0]['ok'], variant_ok=outs[1]['ok'], error=outs[1]['exc_msg'])
    for vv in ctx.mon.viols[:10]:
        print('replayed violation:', vv['mechanism'], str(vv['witness'])[:300])
    return 1 if ctx.mon.viols else 0
