"""C17 Heat-in-place assessment adds up and scales with reservoir size.

HIP-RA-X has no hook: the harness wraps HIP_RA_X.Calculate from outside (single class, no subclasses) and snapshots the
output parameters right after the real Calculate returns, for executions driven through the real hip_ra_x.main()."""
import contextlib
import io
import logging
import math
import os
import sys

from .. import runner
from .. import units as U
from ..pool import Pool
from ..verdict import Mon, close

EXTENSIVE = ['reservoir_volume', 'volume_rock', 'volume_recoverable_fluid', 'reservoir_stored_heat', 'stored_heat_rock',
             'stored_heat_fluid', 'reservoir_mass', 'mass_rock', 'mass_recoverable_fluid', 'reservoir_available_heat',
             'reservoir_producible_heat', 'reservoir_producible_electricity']
INTENSIVE = ['reservoir_enthalpy', 'enthalpy_rock', 'enthalpy_fluid', 'reservoir_recovery_factor', 'heat_per_unit_volume_reservoir',
             'electricity_per_unit_volume_reservoir']
PER_AREA = ['producible_heat_per_unit_area', 'producible_electricity_per_unit_area']
INPUT_ATTRS = ['reservoir_temperature', 'rejection_temperature', 'reservoir_porosity', 'reservoir_area', 'reservoir_thickness',
               'reservoir_life_cycle', 'rock_heat_capacity', 'fluid_heat_capacity', 'fluid_density', 'rock_density',
               'recoverable_fluid_factor', 'recoverable_rock_heat', 'reservoir_depth', 'reservoir_pressure']

_STASH = {}


def _wrap():
    import hip_ra_x.hip_ra_x as H
    if getattr(H.HIP_RA_X, '_gxv_c17', False):
        return H
    orig = H.HIP_RA_X.Calculate

    def Calculate(self, *a, **k):
        _STASH['inputs_before'] = {n: getattr(getattr(self, n, None), 'value', None) for n in INPUT_ATTRS}
        try:
            return orig(self, *a, **k)
        finally:
            _STASH['out'] = {n: getattr(getattr(self, n, None), 'value', None) for n in EXTENSIVE + INTENSIVE + PER_AREA}
            _STASH['inputs'] = {n: getattr(getattr(self, n, None), 'value', None) for n in INPUT_ATTRS}
            _STASH['provided'] = {n: getattr(getattr(self, n, None), 'Provided', None) for n in INPUT_ATTRS}
    H.HIP_RA_X.Calculate = Calculate
    H.HIP_RA_X._gxv_c17 = True
    return H


def run_hip(text):
    """One execution of the real HIP-RA-X main(); returns (ok, error, outputs snapshot, inputs snapshot, report)."""
    H = _wrap()
    wd = runner.workdir()
    runner._COUNTER[0] += 1
    ip = os.path.join(wd, f'hip{runner._COUNTER[0]}.txt')
    op = os.path.join(wd, f'hip{runner._COUNTER[0]}.out')
    with open(ip, 'w', encoding='utf-8') as f:
        f.write(text)
    _STASH.clear()
    cwd0, argv0 = os.getcwd(), sys.argv
    sys.argv = ['', ip, op]
    logging.disable(logging.CRITICAL)
    err = None
    try:
        with contextlib.redirect_stdout(io.StringIO()), contextlib.redirect_stderr(io.StringIO()):
            H.main(enable_hip_ra_logging_config=False)
    except BaseException as ex:  # noqa
        if isinstance(ex, KeyboardInterrupt):
            raise
        err = f'{type(ex).__name__}: {str(ex)[:200]}'
    finally:
        logging.disable(logging.NOTSET)
        sys.argv = argv0
        os.chdir(cwd0)
    rep = None
    with contextlib.suppress(OSError):
        with open(op, encoding='utf-8') as f:
            rep = f.read()
    for p in (ip, op):
        with contextlib.suppress(OSError):
            os.remove(p)
    out = dict(_STASH.get('out') or {})
    ok = err is None and bool(out) and all(v is not None for v in out.values())
    return {'ok': ok, 'error': err, 'out': out, 'inputs': dict(_STASH.get('inputs') or {}),
            'inputs_before': dict(_STASH.get('inputs_before') or {}), 'provided': dict(_STASH.get('provided') or {}),
            'report': rep}


def render(params):
    return ''.join(f'{k}, {v}\n' for k, v in params.items())


def draw(rng):
    p = {'Reservoir Temperature': round(rng.uniform(95, 340), 3), 'Rejection Temperature': round(rng.uniform(5, 80), 3),
         'Reservoir Porosity': round(rng.choice([rng.uniform(0.5, 40), rng.uniform(0.0, 100.0)]), 4),
         'Reservoir Area': round(math.exp(rng.uniform(math.log(0.5), math.log(900))), 4),
         'Reservoir Thickness': round(math.exp(rng.uniform(math.log(0.02), math.log(5))), 5),
         'Reservoir Life Cycle': rng.choice([1, 20, 25, 30, 100])}
    if rng.random() < 0.4:
        p['Rock Heat Capacity'] = f'{rng.uniform(1e12, 5e12):.6e}'
    if rng.random() < 0.4:
        p['Density Of Reservoir Rock'] = f'{rng.uniform(2e12, 3.2e12):.6e}'
    if rng.random() < 0.3:
        p['Fluid Specific Heat Capacity'] = round(rng.uniform(3.5, 6.0), 4)
    if rng.random() < 0.3:
        p['Density Of Reservoir Fluid'] = f'{rng.uniform(6e11, 1.05e12):.6e}'
    if rng.random() < 0.5:
        p['Recoverable Fluid Factor'] = round(rng.uniform(0.05, 1.0), 4)
    if rng.random() < 0.5:
        p['Recoverable Heat from Rock'] = round(rng.uniform(0.05, 1.0), 4)
    if rng.random() < 0.35:
        p['Reservoir Depth'] = round(rng.uniform(0.3, 8.0), 4)
    if rng.random() < 0.35:
        p['Reservoir Pressure'] = round(rng.uniform(5, 90), 3)
    if p['Rejection Temperature'] >= p['Reservoir Temperature'] - 20:
        p['Rejection Temperature'] = round(p['Reservoir Temperature'] - 30 - rng.uniform(0, 30), 3)
    return p


UNIT_VARIANTS = {
    'Reservoir Temperature': [('degC', 'degF'), ('degC', 'degK')],
    'Rejection Temperature': [('degC', 'degF'), ('degC', 'degK')],
    'Reservoir Area': [('km**2', 'm**2'), ('km**2', 'mi**2'), ('km**2', 'ft**2')],
    'Reservoir Thickness': [('kilometer', 'meter'), ('kilometer', 'ft'), ('kilometer', 'mile')],
    'Reservoir Depth': [('kilometer', 'meter'), ('kilometer', 'ft')],
    'Reservoir Pressure': [('MPa', 'kPa'), ('MPa', 'psi'), ('MPa', 'bar')],
    'Reservoir Life Cycle': [('yr', 'day'), ('yr', 'week')],
    'Density Of Reservoir Rock': [('kg/km**3', 'kg/m**3'), ('kg/km**3', 'lbs/ft**3')],
}


def hip_job(params, k_area, k_thick, unit_variant):
    mon = Mon('C17')
    base = run_hip(render(params))
    info = {'ok': base['ok'], 'error': base['error']}
    if not base['ok']:
        return {'mon': mon.dump(), 'info': info}
    o, i = base['out'], base['inputs']
    tag = {'params': params}
    V = float(i['reservoir_area']) * float(i['reservoir_thickness'])
    phi = float(i['reservoir_porosity']) / 100.0
    rff = float(i['recoverable_fluid_factor'])
    mon.eq('volumes-are-porosity-fractions', o['reservoir_volume'], V, rel=1e-12, mechanism='C17/reservoir-volume-not-area-times-thickness', **tag)
    mon.eq('volumes-are-porosity-fractions', o['volume_rock'], V * (1 - phi), rel=1e-12, abs_=1e-15,
           mechanism='C17/rock-volume-not-(1-porosity)-of-reservoir-volume', **tag)
    mon.eq('volumes-are-porosity-fractions', o['volume_recoverable_fluid'], V * phi * rff, rel=1e-12, abs_=1e-15,
           mechanism='C17/recoverable-fluid-volume-not-porosity-x-recoverable-factor', **tag)
    sh, shr, shf = float(o['reservoir_stored_heat']), float(o['stored_heat_rock']), float(o['stored_heat_fluid'])
    mon.eq('stored-heat-is-rock-plus-fluid', sh, shr + shf, rel=1e-12, mechanism='C17/stored-heat-not-rock-plus-fluid', **tag)
    av, pr = float(o['reservoir_available_heat']), float(o['reservoir_producible_heat'])
    if sh >= 0 and math.isfinite(sh):
        mon.check('available-not-above-stored', av <= sh * (1 + 1e-12) + 1e-9, mechanism='C17/available-heat-exceeds-stored-heat',
                  available=av, stored=sh, **tag)
        mon.check('producible-not-above-available', pr <= av * (1 + 1e-12) + 1e-9, mechanism='C17/producible-heat-exceeds-available-heat',
                  producible=pr, available=av, **tag)
    else:
        mon.note('negative-stored-heat-case')
    nontrivial = sh > 0

    def scaled_run(name, k):
        q = dict(params)
        q[name] = repr(float(params[name]) * k)
        return run_hip(render(q))

    for name, k, per_area_scales in (('Reservoir Area', k_area, False), ('Reservoir Thickness', k_thick, True)):
        if k is None:
            continue
        s = scaled_run(name, k)
        if not s['ok']:
            mon.note('scaled-run-rejected:' + name)
            continue
        clause = 'scales-with-area' if name == 'Reservoir Area' else 'scales-with-thickness'
        for n in EXTENSIVE:
            a, b = float(o[n]), float(s['out'][n])
            mon.check(clause, close(b, k * a, 1e-9, 1e-300), mechanism=f'C17/extensive-output-not-proportional-to-{name.split()[1].lower()}:{n}',
                      output=n, k=k, base=a, scaled=b, **tag)
        for n in INTENSIVE + ([] if per_area_scales else PER_AREA):
            a, b = float(o[n]), float(s['out'][n])
            mon.check(clause, close(b, a, 1e-9, 1e-300), mechanism=f'C17/intensive-output-changes-with-{name.split()[1].lower()}:{n}',
                      output=n, k=k, base=a, scaled=b, **tag)
        if per_area_scales:
            for n in PER_AREA:
                a, b = float(o[n]), float(s['out'][n])
                mon.check(clause, close(b, k * a, 1e-9, 1e-300), mechanism=f'C17/per-area-output-not-proportional-to-thickness:{n}',
                          output=n, k=k, base=a, scaled=b, **tag)
    # ---- inputs written in other listed units give the same results
    if unit_variant:
        name, (pref, unit) = unit_variant
        if name in params:
            try:
                conv = U.convert(float(params[name]), pref, unit)
            except ValueError:
                conv = None
            if conv is not None:
                q = dict(params)
                q[name] = f'{conv!r} {unit}'
                s = run_hip(render(q))
                wit = {'parameter': name, 'written': q[name], 'base_value': params[name]}
                int_param = name == 'Reservoir Life Cycle'
                if not s['ok']:
                    mech = 'C17/input-in-listed-unit-aborts-or-is-rejected:' + unit
                    if int_param:
                        mech = 'C17/integer-input-with-a-unit-is-truncated-after-conversion'
                    if s['error'] and ('failed to initialize your units' in s['error'] or 'failed to convert your units' in s['error']):
                        mech = 'C17/catalogue-unit-not-understood-by-the-program'
                    mon.bad('units', mechanism=mech, error=s['error'], **wit)
                else:
                    bad = [n for n in EXTENSIVE + INTENSIVE + PER_AREA if not close(float(s['out'][n]), float(o[n]), 1e-9, 1e-300)]
                    mon.check('units', not bad, mechanism='C17/integer-input-with-a-unit-is-truncated-after-conversion' if int_param
                              else 'C17/results-depend-on-input-unit:' + name, changed=bad[:4],
                              base={n: o[n] for n in bad[:3]}, variant={n: s['out'][n] for n in bad[:3]}, **wit)
    info['nontrivial'] = nontrivial
    return {'mon': mon.dump(), 'info': info}


def run(ctx):
    rng = ctx.rng
    jobs = []
    n = ctx.pick(900, 12000)
    for i in range(n):
        p = draw(rng)
        ka = round(math.exp(rng.uniform(math.log(0.1), math.log(10))), 4)
        kt = round(math.exp(rng.uniform(math.log(0.1), math.log(10))), 4)
        if float(p['Reservoir Area']) * ka > 10000:
            ka = round(9999.0 / float(p['Reservoir Area']), 4)
        uv = None
        cands = [nm for nm in UNIT_VARIANTS if nm in p]
        if cands and rng.random() < 0.5:
            nm = rng.choice(cands)
            uv = (nm, rng.choice(UNIT_VARIANTS[nm]))
            if nm != 'Reservoir Life Cycle' and rng.random() < 0.7:
                # a value with all its digits (not one that happens to be short in the documented unit): conversions that
                # round, truncate or re-format the number on the way in must show
                p[nm] = repr(float(p[nm]) * (1.0 + rng.uniform(-1e-3, 1e-3)))
        jobs.append({'fn': 'gxv.props.c17:hip_job', 'args': {'params': p, 'k_area': ka, 'k_thick': kt, 'unit_variant': uv},
                     'timeout': 300})
    import hashlib
    import json
    with Pool(16) as pool:
        for r in pool.map(jobs, timeout=300):
            ctx.evaluations += 3
            if r.status != 'ok':
                ctx.job_inconclusive(r.detail)
                continue
            v = r.value
            if not v['info']['ok']:
                ctx.reject('HIP-RA-X', v['info']['error'] or 'calculation failed')
                continue
            a = r.job['args']
            ctx.mon.merge(v['mon'], case={'args': a})
            if v['info'].get('nontrivial'):
                ctx.distinct.add(hashlib.sha1(json.dumps(a['params'], sort_keys=True).encode()).hexdigest())
                ctx.sample({'params': a['params'], 'k_area': a['k_area'], 'k_thickness': a['k_thick'], 'unit_variant': a['unit_variant']}, limit=4)
    ctx.required.update({'volumes-are-porosity-fractions': 1500, 'stored-heat-is-rock-plus-fluid': 500, 'available-not-above-stored': 500,
                         'producible-not-above-available': 500, 'scales-with-area': 5000, 'scales-with-thickness': 5000, 'units': 150})
    ctx.rule = ('HIP-RA-X inputs drawn across their ranges (temperature 95-340 C, rejection temperature, porosity 0-100 %, area '
                '0.5-900 km2 log-uniform, thickness 0.02-5 km, life cycle, optional rock/fluid density and heat capacity, '
                'recovery factors, provided or derived depth and pressure); per input three or four executions of the real '
                'hip_ra_x.main(): base, area x k, thickness x k (k log-uniform in [0.1, 10], inside range) and one parameter '
                're-expressed in another listed unit; the oracle reads the output parameters right after the real Calculate '
                'returns; distinct by content hash of the parameter set; non-trivial = stored heat > 0')
    ctx.assumptions += ['HIP-RA-X main() swallows calculation errors by design; an execution whose Calculate did not complete '
                        'is counted as a rejected input']


def replay(ctx, payload):
    a = (payload.get('case') or {}).get('args')
    if not a:
        print('replay: no args')
        return 2
    uv = a.get('unit_variant')
    if uv:
        uv = (uv[0], tuple(uv[1]))
    v = hip_job(a['params'], a.get('k_area'), a.get('k_thick'), uv)
    ctx.mon.merge(v['mon'])
    ctx.evaluations = 3
    for vv in ctx.mon.viols[:10]:
        print('replayed violation:', vv['mechanism'], str(vv['witness'])[:300])
    return 1 if ctx.mon.viols else 0
