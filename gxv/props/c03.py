"""C03 Capital and O&M totals are the sum of their parts."""
from .. import workload
from .common import grid_check


def run(ctx):
    grid_check(ctx, 'c03', also=('c01', 'c04'),
               required={'capex-total': 300, 'opex-total': 300, 'wellfield': 300, 'user-component-used': 300,
                         'plant-includes-end-use-equipment': 15},
               rule='grid walk (see C01) where every cost input is independently user-fixed, scaled by an adjustment factor '
                    'in [0,10] or left to its correlation, totals optionally fixed, ITC/grants/fees/tax relief/redrilling '
                    'on and off, all 17 well-cost correlations; distinct by input content hash; every accepted run is '
                    'non-trivial (the roll-up identity has at least six terms)')


def replay(ctx, payload):
    return workload.replay_run_oracles(ctx, payload)
