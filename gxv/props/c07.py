"""C07 Out-of-range and invalid inputs are rejected, never silently altered.

Every float and integer parameter of every module of every configuration family is probed at {just below min, min, max,
just above max, non-member option}.  The deciding monitor is a wrapper on the real ReadParameter (attached from the
harness to every alias) that records (declared domain, input string, value before, outcome, value after); read-phase
probes stop at the after_read hook.  A stratified sample also goes through the real client to observe the API-level
behaviour (RuntimeError naming the parameter, no report)."""
import json
import math
import os

from .. import env, gen, runner
from .. import units as U
from ..pool import Pool

UNBOUNDED = 1e29
ALIASES = {'Total Nonvertical Length': 'Nonvertical Length per Multilateral Section'}
CURRENCY_TYPES = ('CURRENCY', 'CURRENCYFREQUENCY', 'ENERGYCOST', 'COSTPERMASS')

FAMILIES = {
    # family -> (example or None, overrides)
    'std-4-orc': ('example4', {}),
    'std-3-cogen-flash': ('example3', {}),
    'std-1-orc': ('example1', {}),
    'std-2-heat': ('example2', {}),
    'upp-heat': ('example5', {}),
    'hp': ('example10_HP', {}),
    'ac': ('example11_AC', {}),
    'dh': ('example12_DH', {}),
    'addons': ('example1_addons', {}),
    'sdacgt': ('S-DAC-GT', {}),
    'overpressure': ('example_overpressure', {}),
    'multiseg': ('example_multiple_gradients', {}),
    'sutra': ('SUTRAExample1', {}),
    'ags-wanju': ('Wanju_Yuan_Closed-Loop_Geothermal_Energy_Recovery', {}),
    'sbt': ('example_SBT_Lo_T', {}),
    'cyl': ('example4', {'Reservoir Model': 0}),
    'fervo': ('Fervo_Project_Cape', {}),
}
QUICK_FAMILIES = ['std-4-orc', 'std-3-cogen-flash', 'std-1-orc', 'hp', 'ac', 'dh', 'addons', 'sdacgt', 'overpressure',
                  'sutra', 'ags-wanju', 'sbt', 'multiseg']
API_FAMILIES = ['std-4-orc', 'std-3-cogen-flash', 'hp', 'ac']

# documented internal rescalings applied by module code after the reader (DESIGN 4/C07)
RESCALED = {'Reservoir Depth': 1000.0, 'Reservoir Impedance': 1000.0}


def base_text(family):
    ex, over = FAMILIES[family]
    case, raw = gen.example_case(ex)
    for k, v in over.items():
        gen.cset(case, k, v)
    return gen.render(case, raw)


def load_schema():
    p = os.path.join(env.SRC, 'geophires_x_schema_generator', 'geophires-request.json')
    with open(p, encoding='utf-8') as f:
        return json.load(f)['properties']


def _eps(x):
    return max(1e-9, abs(x) * 1e-7)


def make_probes(decl, schema, cat=None, pristine=None):
    """decl: {module: {'class':..., 'params': {name: P}}} from the after_read hook."""
    probes = []
    seen = set()
    for mod, d in decl.items():
        for name, p in d['params'].items():
            if name in seen:
                continue
            seen.add(name)
            if p.cls == 'floatParameter':
                lo, hi = float(p.Min), float(p.Max)
                src = 'live'
                sc = schema.get(name)
                if sc and sc.get('type') == 'number' and sc.get('minimum') is not None and sc.get('maximum') is not None:
                    if float(sc['minimum']) == lo and float(sc['maximum']) == hi:
                        src = 'schema=live'
                    else:
                        src = 'live(differs-from-schema)'
                dflt = p.DefaultValue
                dom = {'kind': 'float', 'min': lo, 'max': hi, 'default': dflt, 'source': src, 'module': d['class']}
                try:
                    # a working value outside the documented range is a "not provided" sentinel (-1, 0 ...): the bounds of such a
                    # parameter sit next to the sentinel, where module code is most likely to mistake one for the other
                    w0 = float(p.value) if not isinstance(p.value, (list, tuple)) else None
                    # the value the module holds before any input is read (the family base may supply this parameter)
                    pv = (pristine or {}).get(name, w0)
                    pv = float(pv) if pv is not None and not isinstance(pv, (list, tuple)) else None
                    dom['sentinel'] = any(x is not None and not (lo <= x <= hi) for x in (w0, pv))
                    dom['working'] = w0
                except (TypeError, ValueError):
                    dom['sentinel'] = False
                if abs(lo) < UNBOUNDED:
                    probes.append((name, lo - _eps(lo), 'below-min', dom))
                    probes.append((name, lo, 'min', dom))
                    # far outside and negative: code that treats "a negative number" as a flag rather than as a value
                    span = (abs(lo) + abs(hi)) if abs(hi) < UNBOUNDED else abs(lo) + 1.0
                    probes.append((name, -(span + 1.5), 'far-below-min', dom))
                # the declared DefaultValue itself, when the module's working value is something else (e.g. a -1 "use the
                # correlation" sentinel): an in-range input like any other, it must be accepted and used
                try:
                    dv = float(dflt)
                    wv = float(p.value) if not isinstance(p.value, (list, tuple)) else None
                except (TypeError, ValueError):
                    dv = wv = None
                if dv is not None and wv is not None and dv != wv and lo <= dv <= hi and dv not in (lo, hi):
                    probes.append((name, dv, 'declared-default', dom))
                # the same out-of-range quantity written in another listed unit must be rejected as well
                ut, pref = p.UnitType, p.PreferredUnits
                if cat and ut in cat and ut not in CURRENCY_TYPES and pref and p.CurrentUnits == pref \
                        and abs(lo) < UNBOUNDED and abs(hi) < UNBOUNDED and hi > lo:
                    others = [u for u in cat[ut] if u and u != pref]
                    if others:
                        u = others[(len(name) + len(others)) % len(others)]
                        for kind, v in (('above-max-other-unit', hi + 0.05 * (hi - lo) + 1e-6), ('below-min-other-unit', lo - 0.05 * (hi - lo) - 1e-6),
                                        # a few parts in ten million outside: a converter that rounds the converted number
                                        # must not pull it onto the bound
                                        ('just-above-max-other-unit', hi + 3e-7 * max(abs(hi), abs(hi - lo))),
                                        ('just-below-min-other-unit', lo - 3e-7 * max(abs(lo), abs(hi - lo)))):
                            try:
                                conv = U.convert(v, pref, u)
                                back = U.convert(conv, u, pref)
                            except ValueError:
                                continue
                            if not math.isfinite(conv) or abs(back - v) > 1e-9 * max(1.0, abs(v)):
                                continue
                            if kind.startswith('just') and not (back > hi + 1e-7 * max(abs(hi), abs(hi - lo)) or back < lo - 1e-7 * max(abs(lo), abs(hi - lo))):
                                continue
                            probes.append((name, v, kind, dict(dom, text=f'{conv!r} {u}', unit=u)))
                if abs(hi) < UNBOUNDED:
                    probes.append((name, hi, 'max', dom))
                    probes.append((name, hi + _eps(hi), 'above-max', dom))
                    probes.append((name, (abs(lo) + abs(hi)) * 10.0 + 1.5 if abs(lo) < UNBOUNDED else abs(hi) * 10.0 + 1.5,
                                   'far-above-max', dom))
            elif p.cls == 'intParameter':
                allow = sorted(set(int(x) for x in (p.AllowableRange or [])))
                if not allow:
                    continue
                dom = {'kind': 'int', 'allow': allow if len(allow) <= 12 else [allow[0], '...', allow[-1]],
                       'min': allow[0], 'max': allow[-1], 'default': p.DefaultValue, 'module': d['class'],
                       'n': len(allow)}
                probes.append((name, allow[0] - 1, 'below-min', dom))
                probes.append((name, allow[0], 'min', dom))
                probes.append((name, allow[-1], 'max', dom))
                probes.append((name, allow[-1] + 1, 'above-max', dom))
                try:
                    dvi = int(getattr(p.DefaultValue, 'int_value', p.DefaultValue))
                    wvi = int(getattr(p.value, 'int_value', p.value))
                    if dvi != wvi and dvi in set(allow) and dvi not in (allow[0], allow[-1]):
                        probes.append((name, dvi, 'declared-default', dom))
                except (TypeError, ValueError):
                    pass
                probes.append((name, -(abs(allow[0]) + abs(allow[-1]) + 7), 'far-below-min', dom))
                probes.append((name, (abs(allow[0]) + abs(allow[-1])) * 10 + 7, 'far-above-max', dom))
                if len(allow) < allow[-1] - allow[0] + 1:          # the set has holes: probe one non-member inside the span
                    aset = set(allow)
                    mid = (allow[0] + allow[-1]) // 2
                    hole = next((v for d in range(0, allow[-1] - allow[0] + 1) for v in (mid + d, mid - d)
                                 if allow[0] < v < allow[-1] and v not in aset), None)
                    if hole is not None:
                        probes.append((name, hole, 'non-member', dom))
    # documented alternative spellings of a parameter name (deprecated aliases the reader still accepts): the same domain binds
    for alias, target in ALIASES.items():
        for name, val, kind, dom in list(probes):
            if name == target and kind in ('below-min', 'min', 'max', 'above-max', 'far-below-min', 'far-above-max') and 'text' not in dom:
                probes.append((target, val, kind + '-via-alias', dict(dom, write_as=alias)))
    out = []
    for name, val, kind, dom in probes:
        d = dom.get('default')
        base_kind = kind.replace('-via-alias', '')
        try:
            if d is not None and float(getattr(d, 'int_value', d)) == float(val) and base_kind in ('below-min', 'above-max', 'non-member', 'far-below-min', 'far-above-max', 'above-max-other-unit', 'below-min-other-unit', 'just-above-max-other-unit', 'just-below-min-other-unit'):
                continue                       # the documented 'not provided' sentinel
        except (TypeError, ValueError):
            pass
        out.append({'name': name, 'value': val, 'kind': kind, 'dom': dom})
    return out


def _fmt(v):
    if isinstance(v, int):
        return str(v)
    return repr(float(v))


def probe_job(text, probes, family):
    """Read-phase probes of one family (worker side)."""
    from .. import contracts as C
    from ..verdict import Mon
    C.attach()
    mon = Mon('C07')
    out_samples = []
    for pr in probes:
        name, val, kind = pr['name'], pr['value'], pr['kind']
        C.reset()
        final = {}

        def at_end_of_read(stage, model, name=name, final=final):
            # value standing in the parameter object the reader wrote to, once every module has finished reading
            if stage == 'after_read':
                for e in C.READ_EVENTS:
                    if e['key'] == name and e.get('obj') is not None:
                        final['value'] = e['obj'].value
        written = pr['dom'].get('write_as') or name
        base_text_ = text
        if pr['dom'].get('write_as'):
            # the alias only counts when the parameter is not also given under its current name
            base_text_ = '\n'.join(ln for ln in text.split('\n') if ln.split(',')[0].strip() != name)
        res = runner.run_text(base_text_ + f'\n{written}, {pr["dom"].get("text") or _fmt(val)}\n', want_snap=False, stop_after_read=True,
                              callbacks=(at_end_of_read,))
        evs = [e for e in C.READ_EVENTS if e['key'] in (name, written) or e['name'] == name]
        kind = kind.replace('-via-alias', '')
        in_domain = kind in ('min', 'max', 'declared-default')
        wit = {'family': family, 'parameter': name, 'value': val, 'kind': kind, 'domain': pr['dom'],
               'outcome': res.exc_type, 'message': (res.exc_msg or '')[:200]}
        if not evs:
            mon.bad('reaches-reader', mechanism='C07/parameter-never-routed-through-the-reader', **wit)
            continue
        mon.ok('reaches-reader')
        ev = evs[-1]
        range_err = (not res.ok) and 'outside of valid range' in (res.exc_msg or '') and name in (res.exc_msg or '')
        if in_domain:
            if range_err:
                mon.bad('bound-accepted', mechanism='C07/documented-bound-rejected', **wit)
                continue
            if ev['raised'] is not None:
                mon.note('in-domain-probe-failed-otherwise:' + str(ev['raised']))
                continue
            mon.ok('bound-accepted')
            newv = float(val)
            after = ev.get('after')
            after_f = float(getattr(after, 'int_value', after)) if after is not None else None
            dflt = ev.get('default')
            try:
                is_default = dflt is not None and float(getattr(dflt, 'int_value', dflt)) == newv
            except (TypeError, ValueError):
                is_default = False
            if after_f == newv:
                mon.ok('bound-used')
                # ... and the module's own special-case code after the reader must not replace it either
                if 'value' in final and not isinstance(final['value'], list):
                    try:
                        fin = float(getattr(final['value'], 'int_value', final['value']))
                    except (TypeError, ValueError):
                        fin = None
                    scale = RESCALED.get(name)
                    okf = fin is not None and (fin == newv or (scale is not None and abs(fin - newv * scale) <= 1e-9 * abs(fin)))
                    if okf:
                        mon.ok('bound-stands-after-read-phase')
                    else:
                        # is the bound treated differently from its interior neighbour (bounds made exclusive by module
                        # code), or does a configuration rule override every value of this parameter?
                        dom = pr['dom']
                        if dom['kind'] == 'int':
                            inner = val + 1 if kind == 'min' else val - 1
                        else:
                            inner = val + 1e-3 * (dom['max'] - dom['min']) if kind == 'min' else val - 1e-3 * (dom['max'] - dom['min'])
                        fin2 = {}

                        def at_end2(stage, model, name=name, fin2=fin2):
                            if stage == 'after_read':
                                for e in C.READ_EVENTS:
                                    if e['key'] == name and e.get('obj') is not None:
                                        fin2['value'] = e['obj'].value
                        C.reset()
                        runner.run_text(text + f'\n{name}, {_fmt(inner)}\n', want_snap=False, stop_after_read=True, callbacks=(at_end2,))
                        try:
                            f2 = float(getattr(fin2.get('value'), 'int_value', fin2.get('value')))
                        except (TypeError, ValueError):
                            f2 = None
                        inner_stands = f2 is not None and (f2 == float(inner) or (scale is not None and abs(f2 - inner * scale) <= 1e-9 * abs(f2)))
                        if inner_stands or f2 is None:
                            mon.bad('bound-stands-after-read-phase', mechanism='C07/accepted-bound-replaced-by-module-code-after-the-reader',
                                    standing_value=fin, interior_probe=inner, interior_standing=f2, **wit)
                        else:
                            mon.bad('bound-stands-after-read-phase',
                                    mechanism=f'C07/in-range-value-overridden-by-configuration-rule:{name}:{pr["dom"].get("module")}',
                                    standing_value=fin, interior_probe=inner, interior_standing=f2, **wit)
            elif is_default and ev['cls'] == 'intParameter':
                mon.bad('bound-used', mechanism='C07/int-equal-to-DefaultValue-skipped-although-working-value-differs',
                        working_value=after_f, **wit)
            else:
                mon.bad('bound-used', mechanism='C07/accepted-value-not-used-as-given', after=after_f, **wit)
        else:
            if res.ok:
                after = ev.get('after')
                after_f = None
                try:
                    after_f = float(getattr(after, 'int_value', after))
                except (TypeError, ValueError):
                    pass
                sym = 'used-as-given' if after_f == float(val) else ('replaced-or-kept' if after_f is not None else '?')
                mon.bad('out-of-range-rejected', mechanism='C07/out-of-range-value-accepted:' + sym, after=after_f, **wit)
            else:
                mon.ok('out-of-range-rejected')
                mon.check('error-names-parameter', name in (res.exc_msg or '') or written in (res.exc_msg or ''),
                          mechanism='C07/rejection-does-not-name-the-parameter', **wit)
        if len(out_samples) < 3:
            out_samples.append(wit)
    return {'mon': mon.dump(), 'samples': out_samples, 'n': len(probes), 'counts': dict(C.COUNTS)}


HIP_BASE = ('Reservoir Temperature, 250.0\nRejection Temperature, 60.0\nReservoir Porosity, 10.0\nReservoir Area, 55.0\n'
            'Reservoir Thickness, 0.25\nReservoir Life Cycle, 25\n')


def hip_declarations():
    """Live declarations of the heat-in-place program (it has no hook: the object is built the way its main() does)."""
    from .. import observe
    import hip_ra_x.hip_ra_x as H
    cwd = os.getcwd()
    try:
        m = H.HIP_RA_X(enable_hip_ra_logging_config=False)
    finally:
        os.chdir(cwd)
    return {'hip_ra_x': {'class': type(m).__name__,
                         'params': {k: observe.snap_param(v) for k, v in m.ParameterDict.items() if observe._is_param(v)}}}


def hip_probe_job(probes, family='hip-ra-x'):
    """Probes of the heat-in-place program through its real main() (ReadParameter wrapper attached to its alias) and,
    for the API-level clauses, through the real HipRaXClient."""
    import contextlib
    import io
    import logging
    import sys
    import tempfile
    from pathlib import Path
    from .. import contracts as C
    from ..verdict import Mon
    from .c17 import run_hip
    C.attach()
    mon = Mon('C07')
    samples = []
    for pr in probes:
        name, val, kind = pr['name'], pr['value'], pr['kind']
        C.reset()
        res = run_hip(HIP_BASE + f'{name}, {pr["dom"].get("text") or _fmt(val)}\n')
        evs = [e for e in C.READ_EVENTS if e['key'] == name]
        in_domain = kind in ('min', 'max', 'declared-default')
        err = res['error'] or ''
        wit = {'family': family, 'parameter': name, 'value': val, 'kind': kind, 'domain': pr['dom'], 'outcome': err[:200]}
        if not evs:
            mon.bad('reaches-reader', mechanism='C07/parameter-never-routed-through-the-reader', **wit)
            continue
        mon.ok('reaches-reader')
        ev = evs[-1]
        range_err = 'outside of valid range' in err and name in err
        if in_domain:
            if range_err:
                mon.bad('bound-accepted', mechanism='C07/documented-bound-rejected', **wit)
                continue
            if ev['raised'] is not None:
                mon.note('in-domain-probe-failed-otherwise:' + str(ev['raised']))
                continue
            mon.ok('bound-accepted')
            after = ev.get('after')
            after_f = float(getattr(after, 'int_value', after)) if after is not None else None
            dflt = ev.get('default')
            try:
                is_default = dflt is not None and float(getattr(dflt, 'int_value', dflt)) == float(val)
            except (TypeError, ValueError):
                is_default = False
            if after_f == float(val):
                mon.ok('bound-used')
            elif is_default and ev['cls'] == 'intParameter':
                mon.bad('bound-used', mechanism='C07/int-equal-to-DefaultValue-skipped-although-working-value-differs',
                        working_value=after_f, **wit)
            else:
                mon.bad('bound-used', mechanism='C07/accepted-value-not-used-as-given', after=after_f, **wit)
        else:
            if ev['raised'] is None:
                after = ev.get('after')
                try:
                    after_f = float(getattr(after, 'int_value', after))
                except (TypeError, ValueError):
                    after_f = None
                sym = 'used-as-given' if after_f == float(val) else ('replaced-or-kept' if after_f is not None else '?')
                mon.bad('out-of-range-rejected', mechanism='C07/out-of-range-value-accepted:' + sym, after=after_f, **wit)
            else:
                mon.ok('out-of-range-rejected')
                mon.check('error-names-parameter', name in err, mechanism='C07/rejection-does-not-name-the-parameter', **wit)
                mon.check('no-report', res['report'] is None, mechanism='C07/report-produced-for-a-rejected-input', **wit)
                # the same probe through the real client: a RuntimeError naming the parameter, no result object
                from hip_ra import HipRaInputParameters
                from hip_ra_x import HipRaXClient
                cerr = None
                logging.disable(logging.CRITICAL)
                try:
                    with contextlib.redirect_stdout(io.StringIO()), contextlib.redirect_stderr(io.StringIO()):
                        params = dict(ln.split(', ', 1) for ln in HIP_BASE.strip().split('\n'))
                        params[name] = pr['dom'].get('text') or _fmt(val)
                        HipRaXClient().get_hip_ra_result(HipRaInputParameters(params))
                except RuntimeError as ex:
                    cerr = str(ex)
                except BaseException as ex:  # noqa
                    cerr = 'UNWRAPPED ' + type(ex).__name__ + ': ' + str(ex)
                finally:
                    logging.disable(logging.NOTSET)
                if cerr is None:
                    mon.bad('api-out-of-range-rejected', mechanism='C07/out-of-range-value-accepted:api', **wit)
                else:
                    mon.ok('api-out-of-range-rejected')
                    mon.check('api-error-names-parameter', name in cerr and not cerr.startswith('UNWRAPPED'),
                              mechanism='C07/rejection-does-not-name-the-parameter', client_error=cerr[:200], **wit)
        if len(samples) < 3:
            samples.append(wit)
    return {'mon': mon.dump(), 'samples': samples, 'n': len(probes), 'counts': dict(C.COUNTS)}


def _staged_client_run(text, name, valtext, tag):
    """One full run through the real client; returns (error text or None, {stage: value of the parameter object})."""
    import contextlib
    import io
    import logging
    from pathlib import Path
    from .. import observe
    from geophires_x_client import GeophiresXClient, GeophiresInputParameters
    wd = runner.workdir()
    path = Path(wd, f'api_{tag}.txt')
    path.write_text(text + f'\n{name}, {valtext}\n', encoding='utf-8')
    params = GeophiresInputParameters(from_file_path=path)
    outp = Path(params.get_output_file_path())
    staged = {}

    def cb(stage, model):
        if stage in ('after_read', 'after_calculate'):
            for modname in observe.MODULES:
                d = getattr(getattr(model, modname, None), 'ParameterDict', None)
                if isinstance(d, dict) and name in d:
                    staged[stage] = getattr(d[name].value, 'int_value', d[name].value)
                    staged[stage + ':provided'] = bool(getattr(d[name], 'Provided', False))
    observe.reset(want_snap=False, want_read=False, callbacks=(cb,))
    logging.disable(logging.CRITICAL)
    err = None
    try:
        with contextlib.redirect_stdout(io.StringIO()), contextlib.redirect_stderr(io.StringIO()):
            GeophiresXClient(enable_caching=False).get_geophires_result(params)
    except RuntimeError as ex:
        err = str(ex)
    except BaseException as ex:  # noqa
        err = 'UNWRAPPED ' + type(ex).__name__ + ': ' + str(ex)
    finally:
        logging.disable(logging.NOTSET)
    for pth in (path, outp, Path(str(outp)[:-4] + '.json')):
        with contextlib.suppress(OSError):
            pth.unlink()
    return err, staged


def _through_calculation(mon, text, probe, family, wit):
    """An accepted bound is *used*: the value standing in the parameter when reading ends is still there when the calculation
    ends, unless module code treats every value of the parameter that way in this configuration (interior neighbour)."""
    name, val, kind, dom = probe['name'], probe['value'], probe['kind'], probe['dom']
    if dom.get('text') or kind not in ('min', 'max'):
        return
    tag = abs(hash((family, name, kind, 'calc'))) % 10**9
    err, st = _staged_client_run(text, name, _fmt(val), f'{tag}a')
    if err is not None or 'after_read' not in st or 'after_calculate' not in st:
        mon.note('through-calculation-not-observed')
        return
    try:
        r0, c0 = float(st['after_read']), float(st['after_calculate'])
    except (TypeError, ValueError):
        return
    if c0 == r0:
        mon.ok('api-bound-stands-through-calculation')
        return
    if dom['kind'] == 'int':
        inner = val + 1 if kind == 'min' else val - 1
    else:
        inner = val + 1e-3 * (dom['max'] - dom['min']) if kind == 'min' else val - 1e-3 * (dom['max'] - dom['min'])
    err2, st2 = _staged_client_run(text, name, _fmt(inner), f'{tag}b')
    if err2 is not None or 'after_read' not in st2 or 'after_calculate' not in st2:
        mon.note('through-calculation-neighbour-not-observed')
        return
    try:
        r1, c1 = float(st2['after_read']), float(st2['after_calculate'])
    except (TypeError, ValueError):
        return
    if c1 == r1:
        # the interior neighbour is left alone, the documented bound is replaced while calculating
        # signature of the reader's "nothing to change" shortcut: the bound equals the value the module already holds, so the
        # reader returns before marking the parameter as provided and the calculation then treats it as absent
        skipped = dom.get('working') is not None and float(dom['working']) == float(val) and not st.get('after_read:provided') \
            and st2.get('after_read:provided')
        mech = ('C07/bound-equal-to-the-working-value-not-marked-provided-then-replaced-during-the-calculation:' + name) if skipped \
            else 'C07/accepted-bound-replaced-during-the-calculation'
        mon.bad('api-bound-stands-through-calculation', mechanism=mech, at_end_of_read=r0, at_end_of_calculation=c0,
                interior_probe=inner, interior_at_end_of_calculation=c1, marked_provided=st.get('after_read:provided'), **wit)
    else:
        mon.ok('api-bound-stands-through-calculation')
        mon.note(f'calculation-rewrites-every-value-of:{name}')


def api_job(text, probe, family):
    """One probe through the real client (full run): API-level rejection / acceptance."""
    import tempfile
    from pathlib import Path
    from .. import contracts as C
    from .. import observe
    from ..verdict import Mon
    from geophires_x_client import GeophiresXClient, GeophiresInputParameters
    C.attach()
    C.reset()
    mon = Mon('C07')
    name, val, kind = probe['name'], probe['value'], probe['kind']
    wd = runner.workdir()
    path = Path(wd, f'api_{abs(hash((family, name, kind))) % 10**9}.txt')
    path.write_text(text + f'\n{name}, {probe["dom"].get("text") or _fmt(val)}\n', encoding='utf-8')
    params = GeophiresInputParameters(from_file_path=path)
    outp = Path(params.get_output_file_path())
    if outp.exists():
        outp.unlink()
    observe.reset(want_snap=False, want_read=True)
    import io
    import contextlib
    import logging
    logging.disable(logging.CRITICAL)
    err = None
    try:
        with contextlib.redirect_stdout(io.StringIO()), contextlib.redirect_stderr(io.StringIO()):
            GeophiresXClient(enable_caching=False).get_geophires_result(params)
    except RuntimeError as ex:
        err = str(ex)
    except BaseException as ex:  # noqa
        err = 'UNWRAPPED ' + type(ex).__name__ + ': ' + str(ex)
    finally:
        logging.disable(logging.NOTSET)
    wit = {'family': family, 'parameter': name, 'value': val, 'kind': kind, 'error': (err or '')[:200]}
    if kind in ('min', 'max', 'declared-default'):
        if err is not None and 'outside of valid range' in err and name in err:
            mon.bad('api-bound-accepted', mechanism='C07/documented-bound-rejected', **wit)
        elif err is not None:
            mon.note('accepted-downstream-failure')
        else:
            mon.ok('api-bound-accepted')
            decl = observe.CURRENT.read          # parameter values as they stand when reading is complete
            if decl is not None:
                found = None
                for modname, d in decl.items():
                    if name in d['params']:
                        found = d['params'][name]
                if found is not None and found.cls in ('floatParameter', 'intParameter') and not isinstance(found.value, list):
                    try:
                        got = float(getattr(found.value, 'int_value', found.value))
                    except (TypeError, ValueError):
                        got = None
                    want = float(val)
                    ok = got is not None and (got == want or (name in RESCALED and abs(got - want * RESCALED[name]) <= 1e-9 * abs(got)))
                    dflt = found.DefaultValue
                    try:
                        is_default = float(getattr(dflt, 'int_value', dflt)) == want
                    except (TypeError, ValueError):
                        is_default = False
                    if not ok and is_default and found.cls == 'intParameter':
                        mon.bad('api-bound-used', mechanism='C07/int-equal-to-DefaultValue-skipped-although-working-value-differs',
                                in_model=got, **wit)
                    else:
                        mon.check('api-bound-used', ok, mechanism='C07/accepted-bound-not-the-value-in-the-model',
                                  in_model=got, units=found.CurrentUnits, **wit)
            _through_calculation(mon, text, probe, family, wit)
    else:
        if err is None:
            mon.bad('api-out-of-range-rejected', mechanism='C07/out-of-range-value-accepted:api', **wit)
        else:
            mon.ok('api-out-of-range-rejected')
            mon.check('api-error-names-parameter', name in err and not err.startswith('UNWRAPPED'),
                      mechanism='C07/rejection-does-not-name-the-parameter', **wit)
            mon.check('api-no-report', not outp.exists(), mechanism='C07/report-produced-for-a-rejected-input', **wit)
    for pth in (path, outp):
        try:
            pth.unlink()
        except OSError:
            pass
    return {'mon': mon.dump()}


def run(ctx):
    from .. import env as _env
    _env.bootstrap()
    schema = load_schema()
    from .c06 import catalogue
    cat = catalogue()
    fams = QUICK_FAMILIES if ctx.quick else list(FAMILIES)
    jobs = []
    api_jobs = []
    nprobes = {}
    for fam in fams:
        text = base_text(fam)
        res = runner.run_text(text, want_snap=False, want_read=True, stop_after_read=True)
        if not res.ok or not res.read:
            ctx.reject(res.exc_type, res.exc_msg)
            ctx.mon.note('family-base-not-readable:' + fam)
            continue
        pristine = {}
        if fam in API_FAMILIES:
            # the same module classes with nothing but the structural options supplied: the values the modules start from
            keep = ('End-Use Option', 'Power Plant Type', 'Reservoir Model', 'Economic Model')
            mini = '\n'.join(ln for ln in text.split('\n') if ln.split(',')[0].strip() in keep) + '\n'
            r0 = runner.run_text(mini, want_snap=False, want_read=True, stop_after_read=True)
            if r0.read:
                for d in r0.read.values():
                    for nm, pp in d['params'].items():
                        pristine.setdefault(nm, getattr(pp.value, 'int_value', pp.value))
        probes = make_probes(res.read, schema, cat, pristine)
        nprobes[fam] = len(probes)
        for i in range(0, len(probes), 40):
            jobs.append({'fn': 'gxv.props.c07:probe_job', 'args': {'text': text, 'probes': probes[i:i + 40], 'family': fam},
                         'timeout': 600})
        if fam in API_FAMILIES:
            direct = [p for p in probes if not p['kind'].endswith('-via-alias')]      # alias probes are read-phase only
            rej = [p for p in direct if p['kind'] not in ('min', 'max', 'declared-default')]
            acc = [p for p in direct if p['kind'] in ('min', 'max', 'declared-default')]
            ctx.rng.shuffle(rej)
            ctx.rng.shuffle(acc)
            take_r = rej[:max(8, len(rej) // (20 if ctx.quick else 4))]
            sent = [p for p in acc if p['dom'].get('sentinel') and p['kind'] in ('min', 'max') and not p['dom'].get('text')]
            rest = [p for p in acc if p not in sent]
            take_a = sent + rest[:ctx.pick(30, len(rest))]
            for p in take_r + take_a:
                api_jobs.append({'fn': 'gxv.props.c07:api_job', 'args': {'text': text, 'probe': p, 'family': fam}, 'timeout': 300})
    # the heat-in-place program (anchored in the property: src/hip_ra_x/hip_ra_x.py) is a family of its own
    hp = make_probes(hip_declarations(), {}, cat)
    nprobes['hip-ra-x'] = len(hp)
    for i in range(0, len(hp), 12):
        jobs.append({'fn': 'gxv.props.c07:hip_probe_job', 'args': {'probes': hp[i:i + 12], 'family': 'hip-ra-x'}, 'timeout': 600})
    total = 0
    with Pool(16) as pool:
        for r in pool.map(jobs + api_jobs, timeout=600):
            if r.status != 'ok':
                ctx.job_inconclusive(r.detail)
                continue
            v = r.value
            a = r.job['args']
            if 'probes' in a:
                total += v['n']
                ctx.evaluations += v['n']
                for pr in a['probes']:
                    ctx.distinct.add((a['family'], pr['name'], pr['kind']))
                for smp in v.get('samples', [])[:1]:
                    ctx.sample(smp)
                cc = ctx.coverage.setdefault('contract_evaluations', {})
                for k, n in v.get('counts', {}).items():
                    cc[k] = cc.get(k, 0) + n
                case = {'job_fn': r.job['fn'], 'family': a['family']}
            else:
                ctx.evaluations += 1
                case = {'job_fn': r.job['fn'], 'family': a['family'], 'probe': a['probe']}
            ctx.mon.merge(v['mon'], case=case)
    ctx.coverage['probes_per_family'] = nprobes
    ctx.coverage['families'] = fams + ['hip-ra-x']
    ctx.coverage['api_level_probes'] = len(api_jobs)
    ctx.exhaustive = True
    ctx.required.update({'reaches-reader': 1500, 'bound-accepted': 600, 'bound-used': 600, 'out-of-range-rejected': 600,
                         'error-names-parameter': 600, 'api-out-of-range-rejected': 20, 'api-no-report': 20,
                         'api-bound-accepted': 20, 'api-bound-stands-through-calculation': 40})
    ctx.rule = ('for each configuration family (shipped example bases: standard reservoir models 0-5, heat pump, chiller, '
                'district heating, add-ons, S-DAC-GT, overpressure, multi-segment, SUTRA, AGS-Wanju, SBT; plus the HIP-RA-X program) every float and '
                'integer parameter offered to the reader is probed at {far below min (negative), just below min, min, max, just above max, far above max, non-member '
                'option} (the out-of-range DefaultValue sentinel excluded); the per-family product is enumerated completely '
                '(exhaustive for the families listed); distinct = (family, parameter, probe kind); every probe is '
                'non-trivial (it changes exactly one parameter of an accepted base); a stratified sample is repeated '
                'through the real client for the API-level clauses')
    ctx.assumptions += [
        'documented domain = live declaration of the module instance that reads the parameter; C19 ties those declarations '
        'to the committed schema (both sources recorded per probe)',
        'a boundary value accepted by the reader that makes a later stage fail is "accepted, downstream failure" and not judged',
        'booleans, strings and list parameters are outside the statement (scalar numeric or option)',
    ]


def replay(ctx, payload):
    case = payload.get('case') or {}
    w = payload.get('witness') or {}
    fam = case.get('family') or w.get('family')
    text = base_text(fam) if fam != 'hip-ra-x' else None
    pr = case.get('probe') or {'name': w['parameter'], 'value': w['value'], 'kind': w['kind'], 'dom': w.get('domain', {})}
    if fam == 'hip-ra-x':
        v = hip_probe_job([pr], fam)
    elif case.get('job_fn', '').endswith('api_job'):
        v = api_job(text, pr, fam)
    else:
        v = probe_job(text, [pr], fam)
    ctx.evaluations = 1
    ctx.mon.merge(v['mon'], case=case)
    for vv in ctx.mon.viols:
        print('replayed violation:', vv['mechanism'], str(vv['witness'])[:300])
    return 1 if ctx.mon.viols else 0
