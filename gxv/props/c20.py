"""C20 All entry points give the same answer.

For one input: `python -m geophires_x` in a subprocess (exit status, files created, cwd contents), GeophiresXClient
in-process, the direct pipeline (GEOPHIRESv3.main with explicit argv) and the run embedded in the Monte-Carlo driver
(one iteration, no sampled inputs) are compared."""
import contextlib
import hashlib
import io
import json
import logging
import os
import shutil
import subprocess
import tempfile

from .. import env, gen, mc, runner
from .. import report as RP
from ..pool import Pool
from ..verdict import Mon

MODES = ['none', 'relative', 'absolute', 'nested-missing-dir', 'relative-subdir']
MC_OUTPUTS = {1: ['Average Net Electricity Production', 'Electricity breakeven price', 'Total capital costs'],
              2: ['Average Direct-Use Heat Production', 'Direct-Use heat breakeven price (LCOH)', 'Total capital costs'],
              3: ['Average Net Electricity Production', 'Electricity breakeven price', 'Total capital costs']}


def _listing(d):
    out = []
    for root, dirs, files in os.walk(d):
        for f in files:
            out.append(os.path.relpath(os.path.join(root, f), d))
    return sorted(out)


NAME_SHAPES = ['{}.out', '{}.v2.out', '{}.2024-01.run.out', '{} with space.out', '{}.OUT.txt']


def entry_job(text, mode, expect_fail, tag, want_mc=False, enduse=1, namev=0):
    mon = Mon('C20')
    shape = NAME_SHAPES[namev % len(NAME_SHAPES)]
    tmp = tempfile.mkdtemp(prefix='gxv-c20-', dir=os.environ.get('GXV_TMP'))
    start = os.path.join(tmp, 'start')
    os.makedirs(os.path.join(start, 'sub'))
    elsewhere = os.path.join(tmp, 'elsewhere')
    os.makedirs(elsewhere)
    inp = os.path.join(tmp, 'in', 'case.txt')
    os.makedirs(os.path.dirname(inp))
    if text is not None:
        with open(inp, 'w', encoding='utf-8') as f:
            f.write(text)
    args = [env.PY, '-m', 'geophires_x', inp]
    if mode == 'none':
        exp_out = os.path.join(start, 'HDR.out')
    elif mode == 'relative':
        args.append(shape.format('my_result'))
        exp_out = os.path.join(start, shape.format('my_result'))
    elif mode == 'relative-subdir':
        args.append(os.path.join('sub', shape.format('r2')))
        exp_out = os.path.join(start, 'sub', shape.format('r2'))
    elif mode == 'absolute':
        exp_out = os.path.join(elsewhere, shape.format('abs_result'))
        args.append(exp_out)
    else:
        exp_out = os.path.join(elsewhere, 'no', 'such', 'dir', 'x.out')
        args.append(exp_out)
    # the JSON goes next to the report under the report's stem (everything before the LAST dot of the file name)
    exp_json = os.path.join(os.path.dirname(exp_out), os.path.splitext(os.path.basename(exp_out))[0] + '.json')
    wit_name = os.path.basename(exp_out)
    e = env.child_env()
    e.pop(env.GUARD, None)
    e.pop(env.OBSERVER_ENV, None)
    before = _listing(start)
    wit = {'mode': mode, 'tag': tag, 'output_name': wit_name}
    try:
        p = subprocess.run(args, cwd=start, env=e, capture_output=True, text=True, timeout=600)
    except subprocess.TimeoutExpired:
        mon.inconclusive('cli', 'watchdog')
        shutil.rmtree(tmp, ignore_errors=True)
        return {'mon': mon.dump()}
    rc = p.returncode
    after = _listing(start)
    cli_report = None
    with contextlib.suppress(OSError):
        with open(exp_out, encoding='utf-8') as f:
            cli_report = f.read()
    # ---- reference executions in this process: direct pipeline and client
    direct = runner.run_text(text, want_snap=False) if text is not None else None
    should_fail = expect_fail or mode == 'nested-missing-dir' or text is None or (direct is not None and not direct.ok)
    if text is not None and direct is not None and expect_fail != (not direct.ok):
        mon.note('expectation-differs-from-direct-pipeline:' + str(direct.exc_type))
    if should_fail:
        mon.check('failure-exits-nonzero', rc != 0, mechanism='C20/failed-simulation-exits-zero' + _why(direct, p), rc=rc,
                  stderr=p.stderr[-200:], stdout=p.stdout[-200:], **wit)
        mon.check('failure-writes-no-report', cli_report is None, mechanism='C20/report-written-although-simulation-failed' + _why(direct, p),
                  rc=rc, report_len=None if cli_report is None else len(cli_report), **wit)
    else:
        mon.check('success-exits-zero', rc == 0, mechanism='C20/successful-simulation-exits-nonzero', rc=rc, stderr=p.stderr[-300:], **wit)
        mon.check('report-at-requested-path', cli_report is not None, mechanism='C20/report-not-at-requested-path:' + mode,
                  expected=os.path.relpath(exp_out, tmp), created=[x for x in after if x not in before][:5], **wit)
        mon.check('json-at-requested-path', os.path.exists(exp_json), mechanism='C20/json-not-next-to-report:' + mode + (':multi-dot-name' if wit_name.count('.') > 1 else ''),
                  expected=os.path.relpath(exp_json, tmp), created=[x for x in after if x not in before][:5], **wit)
        created = [x for x in after if x not in before]
        allowed = {os.path.relpath(exp_out, start), os.path.relpath(exp_json, start)} if exp_out.startswith(start) else set()
        stray = [x for x in created if x not in allowed]
        mon.check('no-stray-files-in-cwd', not stray, mechanism='C20/stray-files-in-starting-directory', stray=stray[:5], **wit)
        if cli_report is not None and direct is not None and direct.ok:
            a, b = runner.norm_report(cli_report), runner.norm_report(direct.report)
            mon.check('cli-equals-direct-pipeline', a == b, mechanism='C20/cli-report-differs-from-direct-pipeline', diff=_diff(a, b), **wit)
            # client in-process
            # every other case: a different input with the same file name in another directory goes through the same client
            # before the first result's report file is read
            sibling = (text + '\nPlant Lifetime, 23\nUtilization Factor, 0.77\n') if namev % 2 == 0 else None
            # the other cases: the input file is edited in place afterwards (override lines appended: the last occurrence
            # of a parameter governs) and the same default (caching) client is asked again for the same path - alternately
            # with the same parameters object and with a new one
            edited = (text.rstrip('\n') + '\nPlant Lifetime, 23\nUtilization Factor, 0.77\n') if namev % 2 == 1 else None
            cinfo = {'same_object': namev % 4 == 1}
            crep, cerr = _client_report(inp, sibling, cinfo, edited)
            if crep is None:
                mon.bad('cli-equals-client', mechanism='C20/client-fails-where-cli-succeeds', error=cerr, **wit)
            else:
                c = runner.norm_report(crep)
                mech = 'C20/cli-report-differs-from-client'
                if a != c and cinfo.get('same_report_file'):
                    mech = 'C20/client-report-file-of-one-input-overwritten-by-a-same-named-input-from-another-directory'
                mon.check('cli-equals-client', a == c, mechanism=mech, diff=_diff(a, c), sibling=sibling is not None, **wit)
                if sibling is not None:
                    mon.ok('client-report-file-survives-a-same-named-input')
                if edited is not None:
                    d2 = runner.run_text(edited, want_snap=False)
                    rep2, err2 = cinfo.get('edited_report'), cinfo.get('edited_error')
                    how = 'same-parameters-object' if cinfo['same_object'] else 'new-parameters-object'
                    if d2.ok and rep2 is not None:
                        x, y = runner.norm_report(d2.report), runner.norm_report(rep2)
                        stale = x != y and y == c
                        mon.check('client-equals-direct-pipeline-after-the-input-file-is-edited', x == y,
                                  mechanism='C20/client-answers-an-edited-input-file-with-' + ('the-report-of-its-previous-content' if stale else 'a-different-report') + ':' + how,
                                  diff=_diff(x, y), **wit)
                    elif d2.ok:
                        mon.bad('client-equals-direct-pipeline-after-the-input-file-is-edited',
                                mechanism='C20/client-fails-on-an-edited-input-file-where-the-direct-pipeline-succeeds:' + how, error=err2, **wit)
                    elif rep2 is not None:
                        mon.bad('client-equals-direct-pipeline-after-the-input-file-is-edited',
                                mechanism='C20/client-returns-a-report-for-an-edited-input-file-on-which-the-direct-pipeline-fails:' + how,
                                error=d2.exc_type, **wit)
                    else:
                        mon.note('edited-input-fails-on-both-entry-points')
            if want_mc:
                outs = MC_OUTPUTS[enduse]
                # "sampled" inputs with a degenerate distribution (uniform v..v draws exactly v, the value the input already
                # has): the embedded run then simulates the same parameter set as the command line.  The names are ones
                # that are proper prefixes of other parameter names ('Inflation Rate During Construction', 'Reservoir Volume
                # Option', 'Injection Temperature Model', '... Adjustment Factor').
                have = {}
                for ln in text.split('\n'):
                    parts = ln.split(',')
                    if len(parts) >= 2 and not ln.lstrip().startswith(('#', '--', '*')):
                        have[parts[0].strip()] = parts[1].strip()
                degenerate = []
                for nm, dflt in (('Inflation Rate', 0.02), ('Reservoir Volume', None), ('Injection Temperature', None),
                                 ('Surface Plant Capital Cost', None), ('Exploration Capital Cost', None)):
                    v = have.get(nm, dflt)
                    try:
                        if v is not None and len(str(v).split()) == 1 and namev % 2 == 0:
                            degenerate.append((nm, ['uniform', float(v), float(v)]))
                    except ValueError:
                        pass
                st = {'program': 'GEOPHIRES', 'inputs': degenerate, 'outputs': outs, 'iterations': 1, 'failure': 0.0,
                      'text': ''.join(f'INPUT, {nm}, uniform, {d[1]!r}, {d[2]!r}\n' for nm, d in degenerate)
                      + ''.join(f'OUTPUT, {o}\n' for o in outs) + 'ITERATIONS, 1\n'}
                if degenerate:
                    mon.note('mc-embedded-run-with-degenerate-sampled-inputs')
                res = mc.run_mc(st, workers=1, base_text=text)
                if res.get('result_text'):
                    header, rows, bad, stats = mc.parse_result(res['result_text'], st)
                    lines, _, _ = RP.tokenize(cli_report)
                    want = [next((ln.text for ln in lines if ln.label == o), None) for o in outs]
                    got = rows[0]['outputs'] if rows else None
                    mon.check('mc-embedded-run-equals-cli', got == want, mechanism='C20/monte-carlo-embedded-run-differs-from-cli',
                              row=got, report=want, **wit)
                else:
                    mon.bad('mc-embedded-run-equals-cli', mechanism='C20/monte-carlo-embedded-run-fails', error=res.get('error'), **wit)
    shutil.rmtree(tmp, ignore_errors=True)
    return {'mon': mon.dump(), 'rc': rc, 'should_fail': bool(should_fail)}


def _why(direct, p):
    """Sub-classify an exit-status defect by how the simulator ended (mechanism, not values)."""
    msg = (p.stdout or '') + (p.stderr or '')
    if 'failed to Failed to write the output file' in msg:
        return ':add-on-or-S-DAC-GT-writer-calls-sys.exit()-without-status'
    if 'GEOPHIRES Failed to write the output file' in msg:
        return ':report-writer-raises-after-opening-the-report'
    return ''


def _diff(a, b):
    if a == b:
        return None
    la, lb = a.split('\n'), b.split('\n')
    for i, (x, y) in enumerate(zip(la, lb)):
        if x != y:
            return {'line': i, 'cli': x[:110], 'other': y[:110]}
    return {'len_cli': len(la), 'len_other': len(lb)}


def _client_report(path, sibling_text=None, info=None, edited_text=None):
    """Report file the client hands back for the input at `path`.  With `sibling_text`, a second, different input with the SAME
    file name in another directory is run through the client afterwards, and the first result's report file is read only
    then: it must still be the report of its own input."""
    from pathlib import Path
    from geophires_x_client import GeophiresInputParameters, GeophiresXClient
    logging.disable(logging.CRITICAL)
    try:
        with contextlib.redirect_stdout(io.StringIO()), contextlib.redirect_stderr(io.StringIO()):
            client = GeophiresXClient()                      # as a user gets it: result caching is on by default
            params = GeophiresInputParameters(from_file_path=Path(path))
            r = client.get_geophires_result(params)
            if edited_text is not None:
                with open(r.output_file_path, encoding='utf-8') as f:
                    first_report = f.read()
                with open(path, 'w', encoding='utf-8') as f:
                    f.write(edited_text)
                p2 = params if (info or {}).get('same_object') else GeophiresInputParameters(from_file_path=Path(path))
                try:
                    r2 = client.get_geophires_result(p2)
                    with open(r2.output_file_path, encoding='utf-8') as f:
                        info['edited_report'] = f.read()
                except Exception as ex2:  # noqa
                    info['edited_error'] = f'{type(ex2).__name__}: {str(ex2)[:200]}'
                for q in (r.output_file_path, str(r.output_file_path)[:-4] + '.json'):
                    with contextlib.suppress(OSError):
                        os.remove(q)
                return first_report, None
            if sibling_text is not None:
                sib_dir = os.path.join(os.path.dirname(os.path.dirname(path)), 'other-project')
                os.makedirs(sib_dir, exist_ok=True)
                sib = os.path.join(sib_dir, os.path.basename(path))
                with open(sib, 'w', encoding='utf-8') as f:
                    f.write(sibling_text)
                sp = GeophiresInputParameters(from_file_path=Path(sib))
                try:
                    client.get_geophires_result(sp)
                except Exception:  # noqa  (whether the sibling itself simulates is beside the point)
                    pass
                out2 = str(sp.get_output_file_path())
                if info is not None:
                    info['same_report_file'] = out2 == str(r.output_file_path)
                if out2 != str(r.output_file_path):
                    for q in (out2, out2[:-4] + '.json'):
                        with contextlib.suppress(OSError):
                            os.remove(q)
        with open(r.output_file_path, encoding='utf-8') as f:
            rep = f.read()
        for q in (r.output_file_path, str(r.output_file_path)[:-4] + '.json'):
            with contextlib.suppress(OSError):
                os.remove(q)
        return rep, None
    except BaseException as ex:  # noqa
        if isinstance(ex, KeyboardInterrupt):
            raise
        return None, f'{type(ex).__name__}: {str(ex)[:200]}'
    finally:
        logging.disable(logging.NOTSET)


def run(ctx):
    rng = ctx.rng
    cells = gen.grid_cells(res_models=(3, 4))
    rng.shuffle(cells)
    jobs = []
    n_ok = ctx.pick(40, 400)
    for i in range(n_ok):
        cell = cells[i % len(cells)]
        case = gen.synth_case(rng, cell, overpressure=False)
        mode = MODES[i % len(MODES)]
        eu = 1 if cell[1] == 1 else (2 if cell[1] == 2 else 3)
        if cell[1] == 2 and cell[2] == 5:
            eu = None
        if eu is not None and i % 4 == 0:
            # the Monte-Carlo cases: a parameter whose name extends a "sampled" name carries a non-default value that the
            # requested levelized cost depends on
            gen.cset(case, 'Inflation Rate During Construction', gen._round(rng.uniform(0.02, 0.15), 3))
        text = gen.render(case)
        jobs.append({'fn': 'gxv.props.c20:entry_job', 'timeout': 900,
                     'args': {'text': text, 'mode': mode, 'expect_fail': False, 'tag': {'cell': list(cell)},
                              'want_mc': eu is not None and i % 4 == 0, 'enduse': eu or 1, 'namev': i // len(MODES)}})
    for name in ['example3', 'example4', 'example10_HP', 'example11_AC', 'example13', 'S-DAC-GT'] + ([] if ctx.quick else ['example1', 'example12_DH', 'example1_addons']):
        case, raw = gen.example_case(name)
        jobs.append({'fn': 'gxv.props.c20:entry_job', 'timeout': 900,
                     'args': {'text': gen.render(case, raw), 'mode': rng.choice(MODES[:3] + ['relative-subdir']), 'expect_fail': False,
                              'tag': {'example': name}}})
    # sparse inputs that rely on the documented defaults (the in-process entry points run in a worker that has served other
    # inputs before; the command line always starts fresh: state left behind by an earlier run shows as a difference)
    from .c08 import OPTIONAL_KEYS
    for i in range(ctx.pick(10, 60)):
        cell = cells[(i * 3) % len(cells)]
        lines = gen.render(gen.synth_case(rng, cell, addons=False, overpressure=False, sdac=False, nseg=1)).split('\n')
        present = [k for k in OPTIONAL_KEYS if any(ln.split(',')[0].strip() == k for ln in lines)]
        rng.shuffle(present)
        drop = set(present[:max(2, len(present) // 2)]) | ({'Gradient 1'} if i % 2 == 0 else set())
        text = '\n'.join(ln for ln in lines if ln.split(',')[0].strip() not in drop) + '\n'
        jobs.append({'fn': 'gxv.props.c20:entry_job', 'timeout': 900,
                     'args': {'text': text, 'mode': MODES[i % 3], 'expect_fail': False, 'tag': {'cell': list(cell), 'sparse': sorted(drop)[:6]},
                              'namev': i}})
    # failing simulations
    fails = []
    for i in range(ctx.pick(14, 98)):
        cell = cells[(i * 7) % len(cells)]
        base = gen.synth_case(rng, cell, addons=False, overpressure=False, sdac=False)
        kind = i % 7
        c = [list(kv) for kv in base]
        if kind == 0:
            gen.cset(c, 'Reservoir Depth', 50)
        elif kind == 1:
            gen.cset(c, 'End-Use Option', 7)
        elif kind == 2:
            gen.cset(c, 'Plant Lifetime', 0)
        elif kind == 3:
            gen.cset(c, 'Utilization Factor', 1.5)
        elif kind == 6:
            # accepted by the reader, fails in the calculation stage: a cold, shallow resource under an electricity end-use
            # ("Electricity production calculated as negative")
            gen.cset(c, 'End-Use Option', 1)
            gen.cset(c, 'Power Plant Type', 1)
            gen.cset(c, 'Number of Segments', 1)
            gen.cset(c, 'Gradient 1', 20)
            gen.cset(c, 'Reservoir Depth', 0.2)
            gen.cset(c, 'Maximum Temperature', 400)
            gen.cset(c, 'Injection Temperature', 70)
        elif kind == 4:
            # add-ons with two construction years: the add-on report writer aborts
            c += gen.addon_block(rng, n=1)
            gen.cset(c, 'Construction Years', 2)
        else:
            # impedance model + overpressure: the main report writer raises in its last table
            gen.cdel(c, 'Injectivity Index')
            gen.cdel(c, 'Productivity Index')
            gen.cset(c, 'Reservoir Impedance', 0.1)
            gen.cset(c, 'Power Plant Type', 1 if cell[1] != 2 else cell[2])
            c += gen.overpressure_block(rng, gen.cget(c, 'Reservoir Depth'))
        fails.append((gen.render(c), {'cell': list(cell), 'failure': ['depth-out-of-range', 'non-member-option', 'lifetime-zero',
                                                                 'utilization-above-one', 'add-ons-with-two-construction-years',
                                                                 'report-writer-fails-in-overpressure-table',
                                                                 'calculation-stage-failure'][kind]}))
    for i, (t, tag) in enumerate(fails):
        # the synthetic calculation-stage candidates do not always fail (a plant may report zero instead of negative output):
        # for them the direct pipeline's outcome decides which clauses apply
        jobs.append({'fn': 'gxv.props.c20:entry_job', 'timeout': 900,
                     'args': {'text': t, 'mode': MODES[i % 3], 'expect_fail': tag['failure'] != 'calculation-stage-failure', 'tag': tag}})
    # deterministic calculation-stage failures: a shipped case made cold and shallow ("Electricity production calculated as
    # negative" is raised by the surface plant after the reader has accepted everything)
    for j, ex in enumerate(['example4', 'example1', 'example4']):
        case, raw = gen.example_case(ex)
        gen.cset(case, 'Reservoir Depth', 0.2)
        gen.cset(case, 'Gradient 1', 20)
        jobs.append({'fn': 'gxv.props.c20:entry_job', 'timeout': 900,
                     'args': {'text': gen.render(case, raw), 'mode': ['relative-subdir', 'none', 'absolute'][j], 'expect_fail': True,
                              'tag': {'example': ex, 'failure': 'calculation-stage-failure'}}})
    for mode in MODES[:3]:
        jobs.append({'fn': 'gxv.props.c20:entry_job', 'timeout': 900,
                     'args': {'text': None, 'mode': mode, 'expect_fail': True, 'tag': {'failure': 'missing-input-file'}}})
    with Pool(16) as pool:
        for r in pool.map(jobs, timeout=900):
            ctx.evaluations += 1
            if r.status != 'ok':
                ctx.job_inconclusive(r.detail)
                continue
            a = r.job['args']
            ctx.mon.merge(r.value['mon'], case={'args': a})
            ctx.distinct.add(hashlib.sha1(json.dumps([a['text'], a['mode']]).encode()).hexdigest())
            ctx.sample({'mode': a['mode'], 'tag': a['tag'], 'exit_status': r.value.get('rc'), 'simulation_fails': r.value.get('should_fail')}, limit=5)
    ctx.required.update({'success-exits-zero': 25, 'report-at-requested-path': 25, 'json-at-requested-path': 25,
                         'cli-equals-direct-pipeline': 25, 'cli-equals-client': 25, 'failure-exits-nonzero': 10,
                         'failure-writes-no-report': 10, 'mc-embedded-run-equals-cli': 4,
                         'client-equals-direct-pipeline-after-the-input-file-is-edited': 8})
    ctx.rule = ('inputs from the fast configuration families and shipped examples (succeeding) and failing inputs (out-of-range '
                'value, non-member option, zero lifetime, missing input file, nested non-existent output directory, a calculation-stage '
                'failure, add-ons with two construction years, a report-writer failure) x output argument {none, relative, relative with sub-directory, absolute, nested '
                'missing directory}; each case runs `python -m geophires_x` in a subprocess from a scratch starting directory '
                '(hooks off) and is compared with the direct pipeline and the client run in-process, every fourth one also '
                'with a one-iteration Monte-Carlo run on the same base; distinct = (input text, output mode); every case is '
                'non-trivial (a full CLI process execution)')


def replay(ctx, payload):
    a = (payload.get('case') or {}).get('args')
    if not a:
        print('replay: no args')
        return 2
    v = entry_job(**a)
    ctx.mon.merge(v['mon'])
    ctx.evaluations = 1
    for vv in ctx.mon.viols[:10]:
        print('replayed violation:', vv['mechanism'], str(vv['witness'])[:300])
    return 1 if ctx.mon.viols else 0
