"""C01 Levelized cost equals its documented definition."""
from .. import workload
from .common import grid_check


def run(ctx):
    grid_check(ctx, 'c01', nontrivial_note='c01-nontrivial', also=('c03', 'c04', 'c16'),
               required={'levelized:LCOE': 200, 'levelized:LCOH': 200, 'levelized:LCOC': 200},
               rule='grid walk over economic model {1,2,3} x end-use {1,2,31..52} x plant type x reservoir model {1,2,3,4} '
                    'with cost/rate/lifetime/resource parameters drawn inside their declared ranges, plus every runnable '
                    'shipped example and perturbed copies; a case is distinct by content hash of its input text and '
                    'non-trivial when its energy series varies from year to year (lifetime > 1); the oracle is the '
                    'independent reference gxv.ref.econ.levelize evaluated on the after_calculate snapshot')
    ctx.coverage['cells_levelized'] = sorted(k[9:] for k in ctx.mon.notes if k.startswith('c01-cell:'))


def replay(ctx, payload):
    return workload.replay_run_oracles(ctx, payload)
