"""C02 Energy flows balance at every time step and over every year."""
from .. import workload
from .common import grid_check


def run(ctx):
    grid_check(ctx, 'c02', nontrivial_note='c02-nontrivial', also=('c15', 'c05'),
               required={'heat-extracted': 300, 'net-electricity': 200, 'useful-heat': 200, 'annual-heat-extracted': 300,
                         'annual-pumping': 300, 'annual-net-electricity': 200, 'annual-heat': 150, 'remaining-heat': 300,
                         'contract:integrate': 2000, 'district-heating-balance': 4},
               rule='grid walk over every surface-plant type and cogeneration variant (see C01) with lifetimes 1..100, time '
                    'steps per year 1..12, utilisation 0.1..1, redrilling and add-ons on and off, district heating with the '
                    'shipped demand file; per-time-step balances and an independent re-implementation of the documented '
                    'annual integration rule are evaluated on the snapshot, and an icontract postcondition checks the same '
                    'rule on every real call of integrate_time_series_slice; distinct by input content hash, non-trivial '
                    'when the production temperature varies in time')


def replay(ctx, payload):
    return workload.replay_run_oracles(ctx, payload)
