"""C02 Energy flows balance at every time step and over every year."""
from .. import workload
from .common import grid_check


def run(ctx):
    # directed: every surface-plant type with the Ramey wellbore model on and redrilling actually reached (the wellbore module
    # re-tiles the produced temperature at each redrilling; a plant that rebuilds it from parts sees something else)
    from .. import gen
    extra = []
    plants = [(2, 6), (2, 5), (2, 9), (2, 7), (1, 1), (1, 2), (1, 3), (1, 4), (31, 1), (42, 2), (51, 1), (52, 4)]
    for i in range(ctx.pick(24, 180)):
        eu, pt = plants[i % len(plants)]
        cell = (ctx.rng.choice([1, 2, 3]), eu, pt, (3, 4, 1, 2)[(i // len(plants)) % 4])
        case = gen.synth_case(ctx.rng, cell, costs=False, incentives=False, prices=False, addons=False, overpressure=False,
                              sdac=False, nseg=1)
        gen.cset(case, 'Maximum Drawdown', ctx.rng.choice([0.01, 0.02, 0.04]))
        gen.cset(case, 'Ramey Production Wellbore Model', 1)
        gen.cset(case, 'Plant Lifetime', ctx.rng.choice([12, 20, 30]) if pt != 7 else 12)
        gen.cset(case, 'Time steps per year', ctx.rng.choice([2, 4, 10]) if cell[3] in (3, 4) else 2)
        gen.cset(case, 'Reservoir Depth', gen._round(ctx.rng.uniform(3.0, 4.5), 3))
        gen.cset(case, 'Gradient 1', gen._round(ctx.rng.uniform(50, 75), 3))
        gen.cset(case, 'Maximum Temperature', 400)
        if cell[3] == 4:
            gen.cset(case, 'Drawdown Parameter', gen._round(ctx.rng.uniform(0.005, 0.02), 4))
        if cell[3] == 3:
            gen.cset(case, 'Drawdown Parameter', gen._round(gen._logu(ctx.rng, 3e-5, 3e-4), 6))
        extra.append({'fn': 'gxv.jobs:run_oracles', 'args': {'text': gen.render(case), 'oracles': ['c02', 'c15', 'c05'],
                                                             'tag': {'cell': list(cell), 'directed': 'ramey-and-redrilling'}},
                      'timeout': 600})
    grid_check(ctx, 'c02', nontrivial_note='c02-nontrivial', also=('c15', 'c05'), extra_jobs=extra,
               required={'heat-extracted': 300, 'net-electricity': 200, 'useful-heat': 200, 'annual-heat-extracted': 300,
                         'annual-pumping': 300, 'annual-net-electricity': 200, 'annual-heat': 150, 'remaining-heat': 300,
                         'contract:integrate': 2000, 'district-heating-balance': 4},
               rule='grid walk over every surface-plant type and cogeneration variant (see C01) with lifetimes 1..100, time '
                    'steps per year 1..12, utilisation 0.1..1, redrilling and add-ons on and off, district heating with the '
                    'shipped demand file; per-time-step balances and an independent re-implementation of the documented '
                    'annual integration rule are evaluated on the snapshot, and an icontract postcondition checks the same '
                    'rule on every real call of integrate_time_series_slice; distinct by input content hash, non-trivial '
                    'when the production temperature varies in time')


def replay(ctx, payload):
    return workload.replay_run_oracles(ctx, payload)
