"""C06 Results do not depend on the units in which inputs are written.

Pairs of executions: a base input vs the same input with one scalar parameter re-expressed as "<converted value> <unit>"
for every unit of the program's own catalogue for that parameter's unit type that the harness's *own* pint registry can
convert to the preferred unit.  Read-phase probes decide acceptance and the stored value for all pairs; full runs decide
equality of computed results and of the report's echo lines; an output-units directive must change only that output's
displayed value and label by the exact factor."""
import math
import re

import numpy as np

from .. import gen, runner
from .. import report as RP
from .. import units as U
from ..pool import Pool
from ..verdict import Mon, close

BASES = {
    'std-1-orc': 'example1',
    'std-4-orc': 'example4',
    'std-3-cogen': 'example3',
    'std-2-heat': 'example2',
    'hp': 'example10_HP',
    'ac': 'example11_AC',
    'dh': 'example12_DH',
    'overpressure': 'example_overpressure',
    'multiseg': 'example_multiple_gradients',
}
QUICK_BASES = ['std-4-orc', 'std-3-cogen', 'hp', 'ac', 'overpressure']
FAST_BASES = {'std-4-orc', 'std-3-cogen', 'hp', 'ac'}

CURRENCY_TYPES = ('CURRENCY', 'CURRENCYFREQUENCY', 'ENERGYCOST', 'COSTPERMASS')


def catalogue():
    """unit type name -> list of catalogue unit strings (the program's own lists)."""
    import geophires_x.Units as GU
    out = {}
    for ut in GU.Units:
        name = ut.name
        # enum class naming conventions used by the catalogue
        cands = [name.title().replace('_', '') + 'Unit', name.title() + 'Unit', name.capitalize() + 'Unit']
        special = {'TEMP_GRADIENT': 'TemperatureGradientUnit', 'CURRENCYFREQUENCY': 'CurrencyFrequencyUnit',
                   'ENERGYCOST': 'EnergyCostUnit', 'ENERGYFREQUENCY': 'EnergyFrequencyUnit', 'COSTPERMASS': 'CostPerMassUnit',
                   'FLOWRATE': 'FlowRateUnit', 'PRODUCTIVITY_INDEX': 'ProductivityIndexUnit',
                   'INJECTIVITY_INDEX': 'InjectivityIndexUnit', 'HEAT_CAPACITY': 'HeatCapacityUnit',
                   'THERMAL_CONDUCTIVITY': 'ThermalConductivityUnit', 'ENERGYDENSITY': 'EnergyDensityUnit',
                   'MASSPERTIME': 'MassPerTimeUnit', 'COSTPERDISTANCE': 'CostPerDistanceUnit',
                   'CO2PRODUCTION': 'CO2ProductionUnit', 'ENERGYPERCO2': 'EnergyPerCO2Unit', 'DECAY_RATE': 'Decay_RateUnit',
                   'INFLATION_RATE': 'Inflation_RateUnit', 'DYNAMIC_VISCOSITY': 'Dynamic_ViscosityUnit'}
        if name in special:
            cands.insert(0, special[name])
        for c in cands:
            en = getattr(GU, c, None)
            if en is not None:
                out[name] = [str(m.value) for m in en]
                break
    return out


def base_case(fam):
    case, raw = gen.example_case(BASES[fam])
    return gen.render(case, raw), case


def make_pairs(decl, case, cat):
    """All (parameter, unit) pairs of one base: scalar float parameters with a unit type whose catalogue has other
    units the harness can convert to."""
    pairs = []
    given = {k: v for k, v in case}
    seen = set()
    for mod, d in decl.items():
        for name, p in d['params'].items():
            if name in seen or p.cls != 'floatParameter':
                continue
            seen.add(name)
            ut = p.UnitType
            pref = p.PreferredUnits
            if ut in (None, 'NONE') or not pref or ut not in cat:
                continue
            # base value in the documented (preferred) unit: what the base input says, else the default
            sval = given.get(name)
            try:
                v0 = float(str(sval).split()[0]) if sval is not None else float(p.DefaultValue)
            except (TypeError, ValueError):
                continue
            if sval is not None and len(str(sval).split()) > 1:
                continue                          # base already uses explicit units
            if not (float(p.Min) <= v0 <= float(p.Max)):
                continue                          # out-of-range sentinel default
            # a value with all its digits rather than the example's round figure (the reference execution writes it out
            # explicitly too): conversions that round or re-format the number on the way in must show
            for f in (1.0 + 1.234567891e-4, 1.0 - 1.234567891e-4):
                if v0 != 0.0 and float(p.Min) <= v0 * f <= float(p.Max):
                    v0 = v0 * f
                    break
            for u in cat[ut]:
                if u == pref or u.strip() == '':
                    continue
                if ut in CURRENCY_TYPES:
                    conv = _currency_convert(v0, pref, u)
                else:
                    try:
                        conv = U.convert(v0, pref, u)
                    except ValueError:
                        conv = None
                if conv is None or not math.isfinite(conv):
                    continue
                pairs.append({'name': name, 'unit_type': ut, 'pref': pref, 'unit': u, 'v0': v0, 'conv': float(conv),
                              'module': d['class'], 'given': sval is not None})
    return pairs


def _currency_convert(v, pref, u):
    """Currency-like units: only prefix / denominator conversions inside one currency are meaningful offline."""
    try:
        return U.convert(v, pref, u)
    except ValueError:
        return None


def _decl_value(decl, name):
    for mod, d in decl.items():
        if name in d['params']:
            return d['params'][name]
    return None


def _flat_outputs(snap):
    out = {}
    for modname in ('reserv', 'wellbores', 'surfaceplant', 'economics'):
        m = getattr(snap, modname, None)
        if m is None:
            continue
        for k, p in m._outputs.items():
            v = p.value
            if isinstance(v, (int, float, np.generic)) and not isinstance(v, bool):
                out[f'{modname}.{k}'] = [float(v)]
            elif isinstance(v, (list, np.ndarray)):
                try:
                    out[f'{modname}.{k}'] = [float(x) for x in np.asarray(v, dtype=float).reshape(-1)]
                except (TypeError, ValueError):
                    pass
    return out


def _classify_reject(pr, res):
    ut = pr['unit_type']
    msg = (res.exc_msg or '')
    et = res.exc_type
    if ut in CURRENCY_TYPES:
        return 'C06/currency-typed-input-in-non-preferred-unit'
    if et == 'UndefinedUnitError' or 'UndefinedUnitError' in msg or 'is not defined in the unit registry' in msg:
        return 'C06/compound-unit-aborts-run'
    if 'failed to initialize your units' in msg or 'failed to convert your units' in msg:
        return 'C06/catalogue-unit-not-understood-by-the-program'
    if 'outside of valid range' in msg and pr['name'] == 'Well Separation':
        return 'C06/Well-Separation-declared-current-inch-preferred-metre'
    if 'outside of valid range' in msg:
        return f'C06/converted-value-rejected-as-out-of-range:{pr["name"]}'
    return f'C06/input-unit-aborts-run:{ut}:{et}'


def pair_job(fam, text, pairs, full):
    """One base and a list of its (parameter, unit) variants (worker side).  For each parameter the reference execution
    is the base with that parameter written explicitly in its documented unit ("Name, v0"), because merely providing a
    parameter can have semantics of its own (e.g. a hydrostatic pressure switches off the built-in correlation)."""
    mon = Mon('C06')
    samples = []
    byparam = {}
    for pr in pairs:
        byparam.setdefault(pr['name'], []).append(pr)
    for name, prs in byparam.items():
        v0 = prs[0]['v0']
        text0 = text + f'\n{name}, {v0!r}\n'
        res0 = runner.run_text(text0, want_snap=False, want_read=True, stop_after_read=True)
        if not res0.ok or not res0.read:
            mon.note('explicit-base-not-readable:' + name)
            continue
        decl0 = res0.read
        full0 = None
        for pr in prs:
            line = f'\n{name}, {pr["conv"]!r} {pr["unit"]}\n'
            wit = {'family': fam, 'parameter': name, 'unit_type': pr['unit_type'], 'preferred': pr['pref'], 'unit': pr['unit'],
                   'base_value': pr['v0'], 'written': f'{pr["conv"]!r} {pr["unit"]}'}
            r1 = runner.run_text(text + line, want_snap=False, want_read=True, stop_after_read=True)
            if not r1.ok:
                mon.bad('accepted', mechanism=_classify_reject(pr, r1), error=f'{r1.exc_type}: {(r1.exc_msg or "")[:160]}', **wit)
                continue
            mon.ok('accepted')
            p0, p1 = _decl_value(decl0, name), _decl_value(r1.read, name)
            ok_val = p0 is not None and p1 is not None and close(p1.value, p0.value, 1e-9, 1e-12)
            if not ok_val:
                ratio = None
                try:
                    ratio = float(p1.value) / float(p0.value)
                except Exception:
                    pass
                mech = 'C06/stored-value-differs:' + pr['unit_type']
                if pr['unit_type'] in CURRENCY_TYPES:
                    mech = 'C06/currency-typed-input-in-non-preferred-unit'
                elif name == 'Well Separation':
                    mech = 'C06/Well-Separation-declared-current-inch-preferred-metre'
                mon.bad('stored-value', mechanism=mech, stored=p1.value if p1 else None, base_stored=p0.value if p0 else None,
                        ratio=ratio, **wit)
                continue
            mon.ok('stored-value')
            other_bad = None
            for mod, d in decl0.items():
                for k, q0 in d['params'].items():
                    if k == name:
                        continue
                    q1 = r1.read.get(mod, {}).get('params', {}).get(k)
                    if q1 is None:
                        continue
                    if isinstance(q0.value, (int, float)) and isinstance(q1.value, (int, float)) \
                            and not isinstance(q0.value, bool) and not close(q0.value, q1.value, 1e-9):
                        other_bad = {'other': k, 'base': q0.value, 'variant': q1.value}
                        break
                if other_bad:
                    break
            mon.check('other-parameters-untouched', other_bad is None, mechanism='C06/unit-on-one-parameter-changes-another',
                      detail=other_bad, **wit)
            if not full:
                continue
            if full0 is None:
                full0 = runner.run_text(text0)
                if not full0.ok:
                    mon.note('explicit-base-run-failed:' + name + ':' + str(full0.exc_type))
                    break
                out0 = _flat_outputs(full0.snap)
                L0, T0, _ = RP.tokenize(full0.report)
                by0 = {(l.section, l.label): l for l in L0}
            f1 = runner.run_text(text + line)
            if not f1.ok:
                mech = f'C06/run-fails-after-accepting-unit:{pr["unit_type"]}:{f1.exc_type}'
                if pr['unit_type'] in CURRENCY_TYPES:
                    mech = 'C06/currency-typed-input-in-non-preferred-unit'
                mon.bad('results-equal', mechanism=mech, error=f'{f1.exc_type}: {(f1.exc_msg or "")[:160]}', **wit)
                continue
            out1 = _flat_outputs(f1.snap)
            diff = None
            for k, a0 in out0.items():
                a1 = out1.get(k)
                if a1 is None or len(a1) != len(a0):
                    diff = {'output': k, 'len_base': len(a0), 'len_variant': None if a1 is None else len(a1)}
                    break
                for i, (a, b) in enumerate(zip(a0, a1)):
                    if not close(a, b, 1e-9, 1e-12):
                        diff = {'output': k, 'index': i, 'base': a, 'variant': b}
                        break
                if diff:
                    break
            mech = 'C06/computed-results-differ:' + pr['unit_type']
            if pr['unit_type'] in CURRENCY_TYPES:
                mech = 'C06/currency-typed-input-in-non-preferred-unit'
            mon.check('results-equal', diff is None, mechanism=mech, diff=diff, **wit)
            if diff is not None:
                continue
            # echo: results are equal, so every labelled line must denote the same quantity as in the reference report
            L1, T1, _ = RP.tokenize(f1.report)
            echo_bad = None
            nlines = 0
            for l1 in L1:
                if l1.section in ('CASE REPORT', 'HEADER'):
                    continue
                l0 = by0.get((l1.section, l1.label))
                if l0 is None or l0.value is None or l1.value is None:
                    continue
                nlines += 1
                if not _same_quantity(l0, l1):
                    echo_bad = {'section': l1.section, 'label': l1.label, 'base': f'{l0.text} {l0.unit}',
                                'variant': f'{l1.text} {l1.unit}'}
                    break
            mon.check('echo', echo_bad is None, mechanism='C06/echo-reconverted:' + pr['unit_type'], detail=echo_bad,
                      lines=nlines, **wit)
            if len(samples) < 2:
                samples.append(wit)
    return {'mon': mon.dump(), 'samples': samples}


def _same_quantity(l0, l1):
    """Do two printed (number, unit) pairs denote the same physical quantity, given their printed precisions?"""
    if l0.text == l1.text and U.norm(l0.unit) == U.norm(l1.unit):
        return True
    try:
        conv = U.convert(l1.value, l1.unit, l0.unit)
        half1 = 0.5 * 10 ** (-l1.decimals) if not l1.sci else abs(l1.value) * 0.5 * 10 ** (-l1.decimals)
        spread = abs(U.convert(l1.value + half1, l1.unit, l0.unit) - conv)
        half0 = 0.5 * 10 ** (-l0.decimals) if not l0.sci else abs(l0.value) * 0.5 * 10 ** (-l0.decimals)
        return abs(conv - l0.value) <= (half0 + spread) * 1.000001 + 1e-9 * abs(l0.value)
    except ValueError:
        return False


def _stored_base(p0, pr):
    """Stored base value when the base input does not mention the parameter: the declaration's working value."""
    return p0.value


def run(ctx):
    from .. import env as _env
    _env.bootstrap()
    cat = catalogue()
    fams = QUICK_BASES if ctx.quick else list(BASES)
    jobs = []
    npairs = {}
    for fam in fams:
        text, case = base_case(fam)
        res = runner.run_text(text, want_snap=False, want_read=True, stop_after_read=True)
        if not res.ok or not res.read:
            ctx.mon.note('base-not-readable:' + fam)
            continue
        pairs = make_pairs(res.read, case, cat)
        npairs[fam] = len(pairs)
        fast = fam in FAST_BASES
        # read-phase for all pairs; full runs for all pairs of fast bases (quick: a stratified sample per unit type x unit)
        if ctx.quick:
            strat = {}
            for pr in pairs:
                strat.setdefault((pr['unit_type'], pr['unit']), []).append(pr)
            full_set = set()
            for key, lst in strat.items():
                ctx.rng.shuffle(lst)
                for pr in lst[:2 if fast else 0]:
                    full_set.add((pr['name'], pr['unit']))
        else:
            full_set = {(pr['name'], pr['unit']) for pr in pairs} if fast else \
                {(pr['name'], pr['unit']) for pr in pairs if ctx.rng.random() < 0.12}
        fulls = [p for p in pairs if (p['name'], p['unit']) in full_set]
        reads = [p for p in pairs if (p['name'], p['unit']) not in full_set]
        for i in range(0, len(reads), 60):
            jobs.append({'fn': 'gxv.props.c06:pair_job', 'args': {'fam': fam, 'text': text, 'pairs': reads[i:i + 60], 'full': False},
                         'timeout': 600})
        step = 12 if fast else 4
        for i in range(0, len(fulls), step):
            jobs.append({'fn': 'gxv.props.c06:pair_job', 'args': {'fam': fam, 'text': text, 'pairs': fulls[i:i + step], 'full': True},
                         'timeout': 900})
    # output-units directive
    jobs += output_jobs(ctx, fams)
    with Pool(16) as pool:
        for r in pool.map(jobs, timeout=900):
            if r.status != 'ok':
                ctx.job_inconclusive(r.detail)
                continue
            v = r.value
            a = r.job['args']
            if v.get('error'):
                ctx.mon.note('job-error:' + v['error'][:80])
            n = len(a['pairs']) if 'pairs' in a else int(v.get('n', 0))
            ctx.evaluations += n
            if 'pairs' not in a:
                ctx.distinct.update((a['fam'], 'output-directive', i) for i in range(n))
            for pr in a.get('pairs', []):
                ctx.distinct.add((a['fam'], pr['name'], pr['unit']))
            for o in a.get('outputs', []):
                ctx.distinct.add((a['fam'], 'out:' + o['name'], o['unit']))
            for smp in v.get('samples', [])[:1]:
                ctx.sample(smp)
            ctx.mon.merge(v['mon'], case={'job_fn': r.job['fn'], 'fam': a['fam'], 'full': a.get('full')})
    ctx.coverage['pairs_per_base'] = npairs
    ctx.coverage['bases'] = fams
    ctx.exhaustive = True
    ctx.required.update({'accepted': 500, 'stored-value': 300, 'results-equal': 60, 'echo': 60, 'output-directive': 40, 'output-directive-applied': 40})
    ctx.rule = ('finite product, enumerated completely per base: every scalar float parameter with a unit type x every unit of '
                'that type\'s catalogue enum that the harness\'s own pint registry converts to the preferred unit (empty unit '
                'strings cannot be written and are skipped); read-phase probes decide acceptance and the stored value for all '
                'pairs, full run pairs (all pairs of the fast bases in thorough; two per (unit type, unit) in quick) decide '
                'equality of all output parameters (rel 1e-9) and of the report echo; output side: every numeric output '
                'parameter with a catalogue of other units x those units via a Units: directive; distinct = (base, parameter, '
                'unit); every pair is non-trivial (the written number differs from the base number)')
    ctx.assumptions += ['pint (shared library, separate registry instance in the harness) defines the unit factors',
                        'currency conversion between different currencies needs a network service and is disabled in the '
                        'code under test; only prefix/denominator conversions inside one currency are probed']


# ---------------------------------------------------------------------------------------------------- output directive

def output_jobs(ctx, fams):
    jobs = []
    for fam in fams:
        if fam not in FAST_BASES:
            continue
        text, case = base_case(fam)
        jobs.append({'fn': 'gxv.props.c06:output_job', 'args': {'fam': fam, 'text': text, 'outputs': [], 'discover': True,
                                                                 'limit': ctx.pick(40, 400), 'seed': ctx.seed}, 'timeout': 900})
    return jobs


def output_job(fam, text, outputs, discover=False, limit=40, seed=0):
    """Units:<output name>, <unit> directive: only that output's displayed value and label change, by the exact factor."""
    import random
    mon = Mon('C06')
    cat = catalogue()
    base = runner.run_text(text)
    if not base.ok:
        return {'mon': mon.dump(), 'error': 'base run failed'}
    L0, T0, _ = RP.tokenize(base.report)
    by0 = {(l.section, l.label): l for l in L0}
    cands = []
    for modname in ('reserv', 'wellbores', 'surfaceplant', 'economics'):
        m = getattr(base.snap, modname)
        for k, p in m._outputs.items():
            scalar = isinstance(p.value, (int, float, np.generic)) and not isinstance(p.value, bool)
            series = isinstance(p.value, (list, tuple, np.ndarray)) and len(p.value) > 0 and \
                all(isinstance(x, (int, float, np.generic)) and not isinstance(x, bool) for x in list(p.value)[:3])
            if p.UnitType in cat and (scalar or series):
                for u in cat[p.UnitType]:
                    if u and u != p.CurrentUnits and u != p.PreferredUnits:
                        try:
                            U.convert(1.0, p.CurrentUnits, u)
                        except ValueError:
                            continue
                        cands.append({'name': k, 'unit': u, 'cur': p.CurrentUnits, 'unit_type': p.UnitType, 'series': series})
    random.Random(f'{seed}:{fam}').shuffle(cands)
    # half of the budget goes to series-valued outputs (their arrays may be shared with other outputs)
    ser = [c for c in cands if c['series']]
    sca = [c for c in cands if not c['series']]
    seen_series = set()
    ser1 = []
    for c in ser:                       # every series output at least once before any repeats
        if c['name'] not in seen_series:
            seen_series.add(c['name'])
            ser1.append(c)
    ser = ser1 + [c for c in ser if c not in ser1]
    cands = ser[:limit // 2] + sca[:limit - min(len(ser), limit // 2)]
    samples = []
    tab0 = {t.title: t for t in T0}
    for o in cands[:limit]:
        wit = {'family': fam, 'output': o['name'], 'unit_type': o['unit_type'], 'from': o['cur'], 'to': o['unit']}
        live = {}

        def after_print(stage, model, o=o, live=live):
            # the requested output as it stands in the model once the report is written (the writer converts in place)
            if stage == 'after_print':
                for modname in ('reserv', 'wellbores', 'surfaceplant', 'economics'):
                    d = getattr(getattr(model, modname, None), 'OutputParameterDict', None)
                    if isinstance(d, dict) and o['name'] in d:
                        q = d[o['name']]
                        cu = getattr(q.CurrentUnits, 'value', q.CurrentUnits)
                        v = q.value
                        first = v[0] if isinstance(v, (list, tuple, np.ndarray)) and len(v) else v
                        live['unit'], live['first'] = str(cu), first
        r1 = runner.run_text(text + f'\nUnits:{o["name"]}, {o["unit"]}\n', callbacks=(after_print,))
        if r1.ok and 'unit' in live:
            # the directive reaches the output whatever its container type: unit label and value are those requested
            b0 = None
            for modname in ('reserv', 'wellbores', 'surfaceplant', 'economics'):
                b0 = b0 or getattr(base.snap, modname)._outputs.get(o['name'])
            try:
                v0 = b0.value[0] if isinstance(b0.value, (list, tuple, np.ndarray)) else b0.value
                want = U.convert(float(v0), o['cur'], o['unit'])
                got = float(live['first'])
                same_unit = U.norm(live['unit']) == U.norm(o['unit'])
                ok = same_unit and abs(got - want) <= 1e-9 * max(abs(want), 1e-300) + 1e-12
                mon.check('output-directive-applied', ok,
                          mechanism='C06/output-unit-directive-not-applied-to-the-output:' + ('series' if o['series'] else 'scalar') + ':' + o['unit_type'],
                          unit_after_print=live['unit'], value_after_print=got, expected_value=want, **wit)
            except (TypeError, ValueError, AttributeError, IndexError):
                mon.note('output-directive-applied-not-judged')
        if not r1.ok:
            mech = 'C06/output-unit-directive-aborts-run:' + o['unit_type']
            if o['unit_type'] in CURRENCY_TYPES:
                mech = 'C06/output-unit-directive-currency-aborts-run'
            mon.bad('output-directive', mechanism=mech, error=f'{r1.exc_type}: {(r1.exc_msg or "")[:160]}', **wit)
            continue
        L1, T1, _ = RP.tokenize(r1.report)
        changed, good, badl = [], [], []
        for l1 in L1:
            if l1.section in ('CASE REPORT', 'HEADER'):
                continue
            l0 = by0.get((l1.section, l1.label))
            if l0 is None or l0.value is None or l1.value is None:
                continue
            if l0.text == l1.text and l0.unit == l1.unit:
                continue
            changed.append(l1.label)
            if _same_quantity(l0, l1):
                good.append(l1.label)
            else:
                badl.append({'label': l1.label, 'base': f'{l0.text} {l0.unit}', 'with_directive': f'{l1.text} {l1.unit}',
                             'same_label': U.norm(l0.unit) == U.norm(l1.unit)})
        # one violation record per offending line, keyed by (line label, requested output): a line of ANOTHER output that
        # moves is a different mechanism from the requested output's own line keeping a stale label
        for b in badl:
            if b['same_label']:
                mech = 'C06/output-unit-directive-converts-value-but-keeps-old-label:' + b['label'] + '<-' + o['name']
            else:
                mech = 'C06/output-unit-directive-line-value-not-by-conversion-factor:' + b['label'] + '<-' + o['name']
            mon.bad('output-directive', mechanism=mech, detail=b, changed=changed[:4], **wit)
        if not badl:
            mon.ok('output-directive')
        # profile tables: a column either stays as printed or every cell moves by one common factor (the requested one)
        try:
            fac = U.convert(1.0, o['cur'], o['unit'])
        except ValueError:
            fac = None
        for t1 in T1:
            t0 = tab0.get(t1.title)
            if t0 is None or len(t0.rows) != len(t1.rows) or not t0.rows:
                continue
            ncol = min(len(t0.rows[0]), len(t1.rows[0]))
            moved = []
            for ci in range(1, ncol):
                c0 = [r[ci] for r in t0.rows if len(r) > ci]
                c1 = [r[ci] for r in t1.rows if len(r) > ci]
                if c0 != c1:
                    moved.append(ci)
            if len(moved) > 1:
                mon.bad('output-directive-tables', mechanism='C06/output-unit-directive-moves-several-profile-columns:' + t1.title + '<-' + o['name'],
                        table=t1.title, columns=moved, **wit)
            else:
                mon.ok('output-directive-tables')
        if not changed:
            mon.note('output-directive-no-visible-line')
        if len(samples) < 2:
            samples.append(wit)
    d = mon.dump()
    d['viols'] = mon.viols[:400]          # per-line records: keep them all (the generic dump keeps 50)
    return {'mon': d, 'samples': samples, 'n': min(limit, len(cands))}


def replay(ctx, payload):
    w = payload.get('witness') or {}
    fam = w.get('family')
    text, case = base_case(fam)
    if 'output' in w:
        print('replay of output-directive cases re-runs the family sample')
        v = output_job(fam, text, [], discover=True, limit=400, seed=ctx.seed)
    else:
        pr = {'name': w['parameter'], 'unit_type': w['unit_type'], 'pref': w['preferred'], 'unit': w['unit'], 'v0': w['base_value'],
              'conv': float(w['written'].split()[0]), 'module': '', 'given': True}
        v = pair_job(fam, text, [pr], True)
    ctx.evaluations = 1
    ctx.mon.merge(v['mon'])
    for vv in ctx.mon.viols[:10]:
        print('replayed violation:', vv['mechanism'], str(vv['witness'])[:300])
    return 1 if ctx.mon.viols else 0
