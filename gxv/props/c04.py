"""C04 Cash flow, NPV, IRR, VIR, MOIC and payback are mutually consistent."""
from .. import workload
from .common import grid_check


def run(ctx):
    grid_check(ctx, 'c04', also=('c01', 'c03', 'c16'), synth_kw={'addons': None},
               required={'cashflow': 300, 'cumulative': 300, 'npv': 300, 'irr': 40, 'payback': 300, 'revenue': 300,
                         'addon-cashflow': 10},
               rule='grid walk (see C01) with construction years 1..14, lifetime 1..100, price escalation / PTC / carbon '
                    'settings, both NPV conventions, with and without add-ons; distinct by input content hash; '
                    'every accepted run is non-trivial (cash-flow series of length construction years + lifetime)')
    n = ctx.mon.notes
    ctx.coverage['payback_branches'] = {'finite': n.get('c04-payback-finite', 0), 'never': n.get('c04-payback-never', 0)}
    if not ctx.mon.viols and (n.get('c04-payback-finite', 0) == 0 or n.get('c04-payback-never', 0) == 0):
        ctx.required['payback-both-branches'] = 1


def replay(ctx, payload):
    return workload.replay_run_oracles(ctx, payload)
