"""C08 A run is a pure function of its input; runs do not contaminate each other.

History + executable model at the client boundary.  Each history (10-40 client calls over a *small* set of request files:
repeats, failing requests, a missing file, files rewritten between calls under the same path, caching on/off, interleaved
clients, changing / deleted working directories) runs in a fresh subprocess under its own PYTHONHASHSEED
(gxv/history.py, hooks off).  Model: result(h, i) = F(input text of request i at call time), F obtained from a fresh
subprocess per distinct text; cwd and argv after every call equal their values before it."""
import hashlib
import json
import os
import subprocess
import tempfile

from .. import env, gen
from ..pool import Pool

HASHSEEDS = ['0', '1', '4242', 'random']
OPTIONAL_KEYS = ['Gradient 1', 'Maximum Temperature', 'Surface Temperature', 'Ambient Temperature', 'Injection Temperature',
                 'Utilization Factor', 'Water Loss Fraction', 'Reservoir Heat Capacity', 'Reservoir Density',
                 'Reservoir Thermal Conductivity', 'Circulation Pump Efficiency', 'End-Use Efficiency Factor',
                 'Production Well Diameter', 'Injection Well Diameter', 'Production Flow Rate per Well', 'Plant Lifetime',
                 'Number of Production Wells', 'Number of Injection Wells', 'Production Wellbore Temperature Drop',
                 'Injection Wellbore Temperature Gain', 'Maximum Drawdown', 'Inflation Rate During Construction',
                 'Well Drilling Cost Correlation', 'Construction Years', 'Time steps per year', 'Electricity Rate',
                 'Thickness 1', 'Gradient 2', 'Thickness 2', 'Gradient 3', 'Injectivity Index', 'Productivity Index']


TWEAKABLE = {'Reservoir Density', 'Reservoir Heat Capacity', 'Reservoir Thermal Conductivity', 'Production Flow Rate per Well',
             'Injection Temperature', 'Surface Temperature', 'Ambient Temperature', 'Circulation Pump Efficiency',
             'Production Well Diameter', 'Injection Well Diameter', 'Fracture Separation', 'Fracture Height', 'Fracture Width',
             'Reservoir Volume', 'Injectivity Index', 'Productivity Index', 'Reservoir Porosity', 'Reservoir Permeability',
             'Production Wellbore Temperature Drop', 'Injection Wellbore Temperature Gain', 'End-Use Efficiency Factor'}


def _spawn(spec, hashseed, timeout=600):
    tmp = tempfile.mkdtemp(prefix='gxv-c08-', dir=os.environ.get('GXV_TMP'))
    sp, op = os.path.join(tmp, 'spec.json'), os.path.join(tmp, 'out.json')
    with open(sp, 'w', encoding='utf-8') as f:
        json.dump(spec, f)
    e = env.child_env({'GXV_TMP': tmp, 'TMPDIR': tmp}, hashseed=hashseed)
    e.pop(env.GUARD, None)
    try:
        p = subprocess.run([env.PY, '-m', 'gxv.history', sp, op], env=e, cwd=tmp, stdout=subprocess.DEVNULL,
                           stderr=subprocess.PIPE, timeout=timeout, text=True)
        if p.returncode != 0 or not os.path.exists(op):
            return {'error': f'history process rc={p.returncode}: {p.stderr[-400:]}'}
        with open(op, encoding='utf-8') as f:
            return json.load(f)
    except subprocess.TimeoutExpired:
        return {'error': 'watchdog'}
    finally:
        import shutil
        shutil.rmtree(tmp, ignore_errors=True)


def ref_job(text):
    """F(text): one call on a fresh client in a fresh process."""
    spec = {'requests': {'r': text}, 'ndirs': 1, 'ops': [{'op': 'client', 'id': 'c', 'caching': False},
                                                          {'op': 'call', 'client': 'c', 'req': 'r'}]}
    out = _spawn(spec, '0')
    if 'error' in out:
        raise RuntimeError(out['error'])
    rec = out['history'][-1]
    return {'outcome': rec['outcome'], 'report': rec.get('report'), 'error': rec.get('error'), 'result_sha': rec.get('result_sha')}


def history_job(spec, hashseed):
    out = _spawn(spec, hashseed)
    if 'error' in out:
        raise RuntimeError(out['error'])
    return out


def _sha(t):
    return None if t is None else hashlib.sha1(t.encode()).hexdigest()


def make_requests(ctx):
    """A small set of request files (few keys, many operations), each with two edited versions."""
    rng = ctx.rng
    reqs = {}
    cells = gen.grid_cells(res_models=(3, 4))
    rng.shuffle(cells)
    texts = []
    for cell in cells[:ctx.pick(3, 6)]:
        texts.append(gen.render(gen.synth_case(rng, cell, addons=False, overpressure=False, sdac=False)))
    for ex in rng.sample(['example3', 'example4', 'example10_HP', 'example11_AC', 'example13', 'example8', 'example9'], ctx.pick(2, 4)):
        case, raw = gen.example_case(ex)
        texts.append(gen.render(case, raw))
    # two bases on the inverse-Laplace reservoir models (1, 2): their Calculate is the expensive one, i.e. where a cache is
    # most tempting
    slow = gen.grid_cells(res_models=(1, 2))
    rng.shuffle(slow)
    for cell in slow[:ctx.pick(2, 4)]:
        c = gen.synth_case(rng, cell, addons=False, overpressure=False, sdac=False)
        gen.cset(c, 'Plant Lifetime', min(int(gen.cget(c, 'Plant Lifetime')), 15))
        texts.append(gen.render(c))

    # one district-heating base whose demand comes from the hourly temperature file and the census division (its edited
    # versions walk through other divisions, in descending and ascending order)
    dh = gen.synth_case(rng, (rng.choice([1, 2, 3]), 2, 7, 4), addons=False, overpressure=False, sdac=False)
    for kk, vv in gen.plant_block(rng, 2, 7, dh_option=2):
        if kk in ('District Heating Demand File Name', 'District Heating Demand Data Time Resolution', 'District Heating Demand Data Column Number'):
            continue
        gen.cset(dh, kk, vv)
    for kk in ('District Heating Demand File Name', 'District Heating Demand Data Time Resolution', 'District Heating Demand Data Column Number'):
        gen.cdel(dh, kk)
    gen.cset(dh, 'US Census Division', 9)
    gen.cset(dh, 'Plant Lifetime', 12)
    dh_text = gen.render(dh)
    texts.append(dh_text)

    # one base whose well cost goes through the user-priced SIMPLE correlation (option 5 + all-in cost per metre): an option
    # object that a run re-parameterises is process-global state
    sc = gen.synth_case(rng, cells[0], addons=False, overpressure=False, sdac=False)
    for kk in ('Well Drilling and Completion Capital Cost', 'Total Capital Cost', 'Injection Well Drilling and Completion Capital Cost'):
        gen.cdel(sc, kk)
    gen.cset(sc, 'Well Drilling Cost Correlation', 5)
    gen.cset(sc, 'All-in Vertical Drilling Costs', 1500)
    simple_text = gen.render(sc)
    texts.append(simple_text)

    def tweak(t):
        # a version that differs from t in one or two physical parameters only (whichever the text sets), by a few percent:
        # anything keyed on *some* of the inputs shows when the others change
        lines = t.split('\n')
        idx = [j for j, ln in enumerate(lines) if ln.split(',')[0].strip() in TWEAKABLE and len(ln.split(',')) >= 2]
        rng.shuffle(idx)
        out = list(lines)
        done = 0
        for j in idx:
            parts = out[j].split(',')
            try:
                v = float(parts[1].strip())
            except ValueError:
                continue
            parts[1] = ' ' + repr(round(v * rng.choice([0.94, 0.97, 1.03, 1.06]), 6))
            out[j] = ','.join(parts[:2])
            done += 1
            if done >= rng.choice([1, 1, 2]):
                break
        return '\n'.join(out)
    for i, t in enumerate(texts):
        v1 = t + f'\nGradient 1, {40 + 3 * i}\n'
        v1b = t + f'\nGradient 1, {60 + 3 * i}\n'             # same length as v1: only the content differs
        v2 = t + f'\nPlant Lifetime, {11 + i}\nUtilization Factor, 0.8{i}\n'
        reqs[f'q{i}'] = [t, v1, v1b, v2, tweak(t), tweak(t)]
        if i % 2 == 0:
            # a version that asks for the price models (revenue table columns) in another unit: the client's table parser
            # meets different unit rows from one request to the next
            reqs[f'q{i}'][4] = t + '\nUnits:Electricity Sale Price Model, USD/kWh\nUnits:Heat Sale Price Model, USD/MMBTU\n'
        if t is simple_text:
            def cost(n, t=t):
                return '\n'.join(('All-in Vertical Drilling Costs, %d' % n) if ln.split(',')[0].strip() == 'All-in Vertical Drilling Costs' else ln
                                 for ln in t.split('\n'))
            reqs[f'q{i}'] = [t, cost(900), cost(2500), v2, tweak(t), cost(1500)]
        if t is dh_text:
            def div(n, t=t):
                return '\n'.join(('US Census Division, %d' % n) if ln.split(',')[0].strip() == 'US Census Division' else ln for ln in t.split('\n'))
            reqs[f'q{i}'] = [t, div(5), div(2), div(7), v2, tweak(t)]
    # requests that ask for the price models (columns of the revenue table) in other units, next to their plain twins
    for j, t in enumerate(texts[:3]):
        reqs[f'units{j}'] = [t + '\nUnits:Electricity Sale Price Model, USD/kWh\nUnits:Heat Sale Price Model, USD/MMBTU\n', t,
                             t + '\nUnits:Electricity Sale Price Model, USD/MWh\n']
    # sparse requests: the same kind of input with optional lines removed, so that the run relies on the documented
    # defaults (cross-run state hiding in default objects only shows when a later request does NOT set the parameter)
    for i, t in enumerate(texts[:ctx.pick(3, 6)]):
        lines = t.split('\n')

        def drop(keys):
            return '\n'.join(ln for ln in lines if ln.split(',')[0].strip() not in keys) + '\n'
        pool_ = [k for k in OPTIONAL_KEYS if any(ln.split(',')[0].strip() == k for ln in lines)]
        rng.shuffle(pool_)
        a, b = set(pool_[:len(pool_) // 2] + ['Gradient 1']), set(pool_[len(pool_) // 3:])
        reqs[f's{i}'] = [drop(a), drop(b), drop(set(pool_))]
    # failing requests
    bad = texts[0] + '\nReservoir Depth, 50\n'                       # out of range
    bad2 = texts[1] + '\nEnd-Use Option, 7\n'                         # non-member option
    reqs['bad0'] = [bad, texts[0], bad]
    reqs['bad1'] = [bad2, bad2 + '\nPlant Lifetime, 12\n', texts[1]]
    reqs['missing'] = [None, texts[2], None]
    # requests on which the simulator gives up through a bare sys.exit() (no exception): the TOUGH2 model without its
    # executable, a user-provided-profile reservoir whose profile file does not exist
    quit0 = texts[0] + '\nReservoir Model, 6\n'
    quit1 = texts[1] + '\nReservoir Model, 5\nReservoir Output File Name, no-such-profile-file.txt\n'
    reqs['quit0'] = [texts[0], quit0, texts[0] + '\nPlant Lifetime, 17\n', quit0]
    reqs['quit1'] = [quit1, texts[1], quit1]
    return reqs


def make_history(ctx, reqs, n_calls):
    rng = ctx.rng
    ops = [{'op': 'client', 'id': 'A', 'caching': True}, {'op': 'client', 'id': 'B', 'caching': False},
           {'op': 'client', 'id': 'C', 'caching': True}]
    rids = list(reqs)
    # few keys: each history touches 3-5 requests
    keys = rng.sample(rids, min(len(rids), rng.randint(3, 5)))
    if rng.random() < 0.8 and not any(k.startswith(('bad', 'missing', 'quit')) for k in keys):
        keys[-1] = rng.choice(['bad0', 'bad1', 'missing', 'quit0', 'quit1', 'quit0'])
    # most histories mix reports whose revenue-table unit rows differ (a request with price-model unit directives)
    units = [k for k in rids if k.startswith('units')]
    if units and rng.random() < 0.7 and not any(k.startswith('units') for k in keys):
        keys[0] = rng.choice(units)
    version = {k: 0 for k in keys}
    calls = 0
    removed = set()
    cur_dir = 0
    while calls < n_calls:
        r = rng.random()
        if r < 0.12:
            k = rng.choice(keys)
            if rng.random() < 0.5 or len(reqs[k]) < 3:
                version[k] = (version[k] + 1) % len(reqs[k])
            else:
                version[k] = rng.choice([v for v in range(len(reqs[k])) if v != version[k]])
            ops.append({'op': 'rewrite', 'req': k, 'text': reqs[k][version[k]]})
        elif r < 0.2:
            cands = [d for d in range(3) if d not in removed]
            cur_dir = rng.choice(cands)
            ops.append({'op': 'chdir', 'dir': cur_dir})
        elif r < 0.23:
            cands = [d for d in range(1, 3) if d not in removed and d != cur_dir]
            if cands:
                d = rng.choice(cands)
                removed.add(d)
                ops.append({'op': 'rmdir', 'dir': d})
        else:
            ops.append({'op': 'call', 'client': rng.choice('AABC'), 'req': rng.choice(keys),
                        'reuse_params': rng.random() < 0.7})
            calls += 1
    return {'requests': {k: reqs[k][0] for k in keys}, 'ndirs': 3, 'ops': ops}


def one_parameter_versions(rng, t, limit=None):
    """Versions of request text t that each differ from it in exactly one physical parameter (by a few percent)."""
    lines = t.split('\n')
    out = []
    for j, ln in enumerate(lines):
        parts = ln.split(',')
        if parts[0].strip() not in TWEAKABLE or len(parts) < 2:
            continue
        try:
            v = float(parts[1].strip())
        except ValueError:
            continue
        new = list(lines)
        new[j] = parts[0] + ', ' + repr(round(v * rng.choice([0.94, 0.97, 1.03, 1.06]), 6))
        out.append('\n'.join(new))
    rng.shuffle(out)
    return out[:limit] if limit else out


def directed_history(rng, t, versions):
    """One request file taken through all its versions in turn (rewritten under the same path between calls), alternately
    through a caching and a non-caching client: anything that remembers an earlier request under a key that ignores part
    of the input shows on the version that differs only in the ignored part."""
    ops = [{'op': 'client', 'id': 'A', 'caching': True}, {'op': 'client', 'id': 'B', 'caching': False},
           {'op': 'call', 'client': 'A', 'req': 'd', 'reuse_params': True}]
    for n, v in enumerate(versions):
        ops.append({'op': 'rewrite', 'req': 'd', 'text': v})
        ops.append({'op': 'call', 'client': 'AB'[n % 2], 'req': 'd', 'reuse_params': rng.random() < 0.5})
    ops.append({'op': 'rewrite', 'req': 'd', 'text': t})
    ops.append({'op': 'call', 'client': 'A', 'req': 'd', 'reuse_params': True})
    return {'requests': {'d': t}, 'ndirs': 3, 'ops': ops}


def check_history(mon, spec, out, refs, case):
    texts = dict(spec['requests'])
    # replay the spec to know the text of each request at each call
    hist = {h['step']: h for h in out['history']}
    for step, op in enumerate(spec['ops']):
        if op['op'] == 'rewrite':
            texts[op['req']] = op['text']
        if op['op'] != 'call':
            continue
        rec = hist.get(step)
        if rec is None:
            mon.inconclusive('result-is-function-of-input', 'call-not-recorded')
            continue
        t = texts[op['req']]
        wit = {'step': step, 'client': op['client'], 'req': op['req'], 'hashseed': out.get('hashseed')}
        # ---- process state is restored, success or failure
        ok_cwd = rec['cwd_after'] == rec['cwd_before']
        ok_argv = rec['argv_after'] == rec['argv_before']
        mon.check('cwd-and-argv-restored', ok_cwd and ok_argv,
                  mechanism='C08/cwd-or-argv-not-restored-after-' + ('failed' if rec['outcome'] == 'error' else 'successful') + '-run',
                  cwd_before=rec['cwd_before'][-40:], cwd_after=str(rec['cwd_after'])[-60:], argv_before=rec['argv_before'][:3],
                  argv_after=rec['argv_after'][:3], outcome=rec['outcome'], **wit)
        # ---- the simulator's module-level / class-level / enum-member state is what it was after the first call
        if 'global_state_changed' in rec:
            ch = rec['global_state_changed']
            mon.check('process-global-state-unchanged', not ch,
                      mechanism='C08/process-global-state-changed-by-a-run:' + (ch[0]['name'] if ch else ''), changed=ch[:3],
                      items=rec.get('global_state_items'), **wit)
        # ---- result = F(text at call time)
        if t is None:
            mon.check('result-is-function-of-input', rec['outcome'] == 'error',
                      mechanism='C08/result-returned-for-a-missing-input-file', **wit)
            continue
        ref = refs.get(_sha(t))
        if ref is None:
            mon.inconclusive('result-is-function-of-input', 'no-reference')
            continue
        if ref['outcome'] == 'error':
            mon.check('result-is-function-of-input', rec['outcome'] == 'error',
                      mechanism='C08/result-returned-for-a-failing-input', ref_error=ref.get('error'), **wit)
            mon.note('c08-failing-request-observed')
            if 'exited without' in (ref.get('error') or ''):
                mon.note('c08-request-ending-in-bare-sys-exit-observed')
            continue
        if rec['outcome'] == 'error':
            mon.bad('result-is-function-of-input', mechanism='C08/valid-input-fails-in-this-history', error=rec.get('error'), **wit)
            continue
        same = rec['report'] == ref['report']
        mech = 'C08/result-differs-from-fresh-run-of-same-input'
        if not same:
            # is it the result of *another* version of that request file? (stale cache)
            others = [s for s, r in refs.items() if r.get('report') == rec['report']]
            if others:
                mech = 'C08/stale-cached-result-for-edited-input-file'
            diff = _first_line_diff(ref['report'], rec['report'])
        else:
            diff = None
        mon.check('result-is-function-of-input', same, mechanism=mech, first_difference=diff, **wit)
        # ---- the parsed result (fields, tables, unit labels) equals the fresh run's, and stays what it was when it was returned
        if same and rec.get('result_sha') and ref.get('result_sha'):
            mon.check('parsed-result-is-function-of-input', rec['result_sha'] == ref['result_sha'],
                      mechanism='C08/parsed-result-differs-from-fresh-run-although-the-report-is-the-same', **wit)
        if rec.get('result_sha') and rec.get('result_sha_at_end'):
            mon.check('returned-result-unchanged-by-later-requests', rec['result_sha'] == rec['result_sha_at_end'],
                      mechanism='C08/result-object-returned-earlier-changed-by-a-later-request', **wit)


def _first_line_diff(a, b):
    la, lb = (a or '').split('\n'), (b or '').split('\n')
    for i, (x, y) in enumerate(zip(la, lb)):
        if x != y:
            return {'line': i, 'fresh': x[:120], 'history': y[:120]}
    return {'len_fresh': len(la), 'len_history': len(lb)}


def run(ctx):
    reqs = make_requests(ctx)
    all_texts = {}
    for k, vs in reqs.items():
        for t in vs:
            if t is not None:
                all_texts[_sha(t)] = t
    specs = [make_history(ctx, reqs, ctx.rng.randint(10, 40)) for _ in range(ctx.pick(32, 240))]
    # directed rewrite chains: every base request through its edited versions and through versions that differ in exactly one
    # physical parameter
    for k, vs in reqs.items():
        if not k.startswith('q'):
            continue
        t = vs[0]
        slow_model = any(ln.replace(' ', '') in ('ReservoirModel,1', 'ReservoirModel,2') for ln in t.split('\n'))
        ones = one_parameter_versions(ctx.rng, t, None if slow_model else ctx.pick(6, 12))
        chain = [v for v in vs[1:4]] + ones
        for v in chain:
            all_texts[_sha(v)] = v
        specs.append(directed_history(ctx.rng, t, chain))
    refs = {}
    jobs = [{'fn': 'gxv.props.c08:ref_job', 'args': {'text': t}, 'timeout': 600, 'sha': s} for s, t in all_texts.items()]
    hjobs = [{'fn': 'gxv.props.c08:history_job', 'args': {'spec': sp, 'hashseed': HASHSEEDS[i % len(HASHSEEDS)]},
              'timeout': 900} for i, sp in enumerate(specs)]
    results = []
    with Pool(16) as pool:
        for r in pool.map(jobs + hjobs, timeout=900):
            if r.status != 'ok':
                ctx.job_inconclusive(r.detail)
                continue
            if 'sha' in r.job:
                refs[r.job['sha']] = r.value
            else:
                results.append((r.job['args'], r.value))
    ncalls = 0
    for args, out in results:
        spec = args['spec']
        case = {'spec': spec, 'hashseed': args['hashseed']}
        before = len(ctx.mon.viols)
        check_history(ctx.mon, spec, out, refs, case)
        for v in ctx.mon.viols[before:]:
            v['case'] = case
        calls = [h for h in out['history'] if h['op'] == 'call']
        ncalls += len(calls)
        ctx.evaluations += len(calls)
        ctx.distinct.add(hashlib.sha1(json.dumps(spec, sort_keys=True).encode()).hexdigest())
        ctx.sample({'ops': [(o['op'], o.get('client'), o.get('req'), o.get('dir')) for o in spec['ops'][:14]],
                    'hashseed': args['hashseed'], 'calls': len(calls)}, limit=3)
    ctx.coverage.update({'histories': len(results), 'client_calls': ncalls, 'distinct_input_texts': len(all_texts),
                         'reference_runs_in_fresh_processes': len(refs),
                         'reference_outcomes': {'ok': sum(1 for r in refs.values() if r['outcome'] == 'ok'),
                                                'error': sum(1 for r in refs.values() if r['outcome'] == 'error')},
                         'hash_seeds': HASHSEEDS})
    ctx.required.update({'result-is-function-of-input': 300, 'cwd-and-argv-restored': 300, 'process-global-state-unchanged': 300,
                         'parsed-result-is-function-of-input': 200, 'returned-result-unchanged-by-later-requests': 200})
    if not ctx.mon.viols and ctx.mon.notes.get('c08-failing-request-observed', 0) == 0:
        ctx.required['failing-request-observed'] = 1
    if not ctx.mon.viols and ctx.mon.notes.get('c08-request-ending-in-bare-sys-exit-observed', 0) == 0:
        ctx.required['request-ending-in-bare-sys-exit-observed'] = 1
    ctx.rule = ('histories of 10-40 GeophiresXClient calls over 3-5 request files drawn from fast configuration families '
                '(repeats, out-of-range / non-member / missing-file requests and requests the simulator abandons through a bare sys.exit(), the same path rewritten with different content '
                'between calls, three clients with caching on/off interleaved, re-used and fresh input-parameter objects, '
                'changes of working directory and deleted directories; plus one directed rewrite chain per base request through '
                'its edited versions and versions differing in exactly one physical parameter), each history in a fresh subprocess under one of 4 '
                'PYTHONHASHSEED values; the oracle execution F(text) is a single call in its own fresh process; results are '
                'compared as normalised report text (date/time/version lines removed); distinct = distinct history specs; '
                'every history is non-trivial (at least 10 calls, at least 3 request files)')
    ctx.assumptions += ['the normalised report text carries every figure the client returns',
                        'F(text) computed under PYTHONHASHSEED=0 is the reference for all hash seeds']


def replay(ctx, payload):
    case = payload.get('case') or {}
    spec = case.get('spec')
    if not spec:
        print('replay: no history spec in payload')
        return 2
    texts = set()
    cur = dict(spec['requests'])
    for t in cur.values():
        if t is not None:
            texts.add(t)
    for op in spec['ops']:
        if op['op'] == 'rewrite':
            texts.add(op['text'])
    refs = {_sha(t): ref_job(t) for t in texts}
    out = history_job(spec, case.get('hashseed', '0'))
    check_history(ctx.mon, spec, out, refs, case)
    ctx.evaluations = len(out['history'])
    for vv in ctx.mon.viols[:10]:
        print('replayed violation:', vv['mechanism'], str(vv['witness'])[:300])
    return 1 if ctx.mon.viols else 0
