"""C18 Outputs respond monotonically where the model says they must (ordered chains of executions + direct sweeps)."""
import math

from .. import gen
from ..pool import Pool

COST_INPUTS = [
    # (name, ascending values, kind)
    ('Reservoir Stimulation Capital Cost', [0, 1.5, 20, 400], 'cost'),
    ('Reservoir Stimulation Capital Cost Adjustment Factor', [0, 0.5, 1, 4, 10], 'factor'),
    ('Exploration Capital Cost', [0, 2, 30, 100], 'cost'),
    ('Exploration Capital Cost Adjustment Factor', [0, 0.5, 1, 10], 'factor'),
    ('Well Drilling and Completion Capital Cost', [0.2, 3, 30, 200], 'cost'),
    ('Well Drilling and Completion Capital Cost Adjustment Factor', [0, 0.5, 1, 3, 10], 'factor'),
    ('Injection Well Drilling and Completion Capital Cost Adjustment Factor', [0, 0.5, 1, 3, 10], 'factor'),
    ('Surface Plant Capital Cost', [1, 20, 300, 1000], 'cost'),
    ('Surface Plant Capital Cost Adjustment Factor', [0, 0.5, 1, 3, 10], 'factor'),
    ('Field Gathering System Capital Cost', [0, 2, 30, 100], 'cost'),
    ('Field Gathering System Capital Cost Adjustment Factor', [0, 0.5, 1, 3, 10], 'factor'),
    ('Wellfield O&M Cost', [0, 0.5, 10, 100], 'cost'),
    ('Wellfield O&M Cost Adjustment Factor', [0, 0.5, 1, 3, 10], 'factor'),
    ('Surface Plant O&M Cost', [0, 0.5, 10, 100], 'cost'),
    ('Surface Plant O&M Cost Adjustment Factor', [0, 0.5, 1, 3, 10], 'factor'),
    ('Water Cost', [0, 0.2, 5, 100], 'cost'),
    ('Water Cost Adjustment Factor', [0, 0.5, 1, 3, 10], 'factor'),
    ('Total Capital Cost', [1, 30, 300, 1000], 'cost'),
    ('Total O&M Cost', [0, 1, 10, 100], 'cost'),
    ('All-in Vertical Drilling Costs', [100, 1000, 4000, 10000], 'cost'),
    ('One-time Flat License Fees Etc', [0, 1, 20], 'cost'),
    ('Annual License Fees Etc', [0, 0.2, 3], 'cost'),
    ('Electricity Rate', [0.0, 0.05, 0.3, 1.0], 'cost-heat-only'),
    # end-use equipment figures (chains pass through the parameter's declared default, 5 / 5 / 1)
    ('Heat Pump Capital Cost', [0.5, 4.5, 5, 5.5, 40], 'cost-heat-pump'),
    ('Absorption Chiller Capital Cost', [0.5, 4.5, 5, 5.5, 40], 'cost-chiller'),
    ('Absorption Chiller O&M Cost', [0.05, 0.75, 1, 1.25, 10], 'cost-chiller'),
]


def chain_texts(case, name, values):
    out = []
    for v in values:
        c = [list(kv) for kv in case]
        gen.cset(c, name, v)
        out.append(gen.render(c))
    return out


def sweep_job():
    """Dense sweep of the real well-cost correlations inside their validity range (direct calls)."""
    from ..verdict import Mon
    import geophires_x.GEOPHIRESv3  # noqa
    from geophires_x.OptionList import WellDrillingCostCorrelation
    import geophires_x.Economics as Ec
    mon = Mon('C18')
    n = 0
    depths = [500.0 + 5.0 * i for i in range(1301)]

    class _L:
        def warning(self, *a, **k):
            pass

    class _M:
        logger = _L()
    for corr in WellDrillingCostCorrelation:
        if corr.name == 'SIMPLE':
            costs = [Ec.calculate_cost_of_one_vertical_well(_M(), d, corr, 1846.0, 'x', 1.0) for d in depths]
        else:
            costs = [corr.calculate_cost_MUSD(d) for d in depths]
            via = [Ec.calculate_cost_of_one_vertical_well(_M(), d, corr, 1846.0, 'x', 1.0) for d in depths[::50]]
            mon.check('well-cost-monotone-in-depth', all(abs(a - b) <= 1e-12 * abs(a) for a, b in zip(via, costs[::50])),
                      mechanism='C18/one-well-cost-differs-from-correlation', correlation=corr.name)
        bad = next((i for i in range(len(costs) - 1) if costs[i + 1] < costs[i] * (1 - 1e-12)), None)
        mon.check('well-cost-monotone-in-depth', bad is None, mechanism='C18/well-cost-decreases-with-depth:' + corr.name,
                  correlation=corr.name, depth=None if bad is None else depths[bad],
                  costs=None if bad is None else [costs[bad], costs[bad + 1]])
        n += len(costs)
        # the cost of one well as the simulator computes it (real function, every depth of the range incl. both ends), for
        # cheap and expensive per-metre fallbacks and adjustment factors: non-decreasing wherever the chosen correlation applies
        for per_m, factor in ((1000.0, 1.0), (3000.0, 1.0), (10000.0, 0.7), (100.0, 2.5)):
            real = [Ec.calculate_cost_of_one_vertical_well(_M(), d, corr, per_m, 'x', factor) for d in depths]
            bad = next((i for i in range(len(real) - 1) if real[i + 1] < real[i] * (1 - 1e-12)), None)
            mon.check('well-cost-monotone-in-depth', bad is None, mechanism='C18/cost-of-one-well-decreases-with-depth:' + corr.name,
                      correlation=corr.name, per_metre_cost=per_m, factor=factor, depth=None if bad is None else depths[bad],
                      costs=None if bad is None else [real[bad], real[bad + 1]])
            n += len(real)
    return {'mon': mon.dump(), 'calls': n, 'correlations': len(list(WellDrillingCostCorrelation))}


def run(ctx):
    rng = ctx.rng
    jobs = [{'fn': 'gxv.props.c18:sweep_job', 'args': {}, 'timeout': 600, 'meta': {'clause': 'sweep'}}]
    cells = gen.grid_cells(res_models=(3, 4))
    rng.shuffle(cells)
    heat_cells = [(em, 2, 9, 4) for em in (1, 2, 3)] + [(em, 1, 1, 4) for em in (1, 2, 3)]
    # (a) gradient / depth chains (models 3/4, 1..3 segments), including the heuristic thresholds
    for i in range(ctx.pick(60, 600)):
        cell = heat_cells[i % len(heat_cells)]
        nseg = rng.choice([1, 1, 2, 3])
        base = gen.synth_case(rng, cell, costs=False, incentives=False, prices=False, addons=False, overpressure=False, nseg=nseg, sdac=False)
        gen.cset(base, 'Maximum Temperature', rng.choice([400, 400, 250, 600]))
        if rng.random() < 0.5:
            k = rng.randint(1, nseg)
            lo = sorted(gen._round(rng.uniform(10, 120), 4) for _ in range(4))
            vals = lo if rng.random() < 0.7 else sorted(set([0.5, 1.0, 1.5, 5.0] + lo[:2]))
            jobs.append({'fn': 'gxv.jobs:multi_run', 'args': {'texts': chain_texts(base, f'Gradient {k}', vals)}, 'timeout': 300,
                         'meta': {'clause': 'bht-gradient', 'name': f'Gradient {k}', 'values': vals, 'cell': list(cell), 'nseg': nseg}})
        else:
            vals = sorted(gen._round(rng.uniform(0.6, 8.0), 4) for _ in range(4))
            jobs.append({'fn': 'gxv.jobs:multi_run', 'args': {'texts': chain_texts(base, 'Reservoir Depth', vals)}, 'timeout': 300,
                         'meta': {'clause': 'bht-depth', 'name': 'Reservoir Depth', 'values': vals, 'cell': list(cell), 'nseg': nseg}})
    # (a') directed: layered profiles in which the maximum-temperature cap is active below the first layer (the region where
    # the capped depth depends on several layers' gradients and thicknesses at once)
    for i in range(ctx.pick(40, 300)):
        cell = heat_cells[i % len(heat_cells)]
        nseg = rng.choice([2, 2, 3, 4])
        base = gen.synth_case(rng, cell, costs=False, incentives=False, prices=False, addons=False, overpressure=False, nseg=nseg, sdac=False)
        g = [gen._round(rng.uniform(20, 90), 3) for _ in range(nseg)]
        h = [gen._round(rng.uniform(0.4, 1.8), 3) for _ in range(nseg - 1)]
        tsurf = gen._round(rng.uniform(0, 25), 2)
        bounds = [tsurf]
        for k in range(nseg - 1):
            bounds.append(bounds[-1] + g[k] * h[k])
        j = rng.randint(2, nseg)                            # the layer (1-based) in which Tmax is to be reached
        lo_t = bounds[j - 1]
        hi_t = bounds[j] if j < nseg else bounds[j - 1] + g[j - 1] * 2.0
        tmax = gen._round(min(600.0, max(50.0, rng.uniform(lo_t + 1.0, max(lo_t + 2.0, hi_t - 1.0)))), 2)
        depth = gen._round(min(14.5, sum(h) + 2.0 + rng.uniform(0.5, 3.0)), 3)      # well beyond the capped depth
        for k in range(nseg):
            gen.cset(base, f'Gradient {k + 1}', g[k])
            if k < nseg - 1:
                gen.cset(base, f'Thickness {k + 1}', h[k])
        gen.cset(base, 'Surface Temperature', tsurf)
        gen.cset(base, 'Maximum Temperature', tmax)
        gen.cset(base, 'Reservoir Depth', depth)
        if rng.random() < 0.75:
            k = rng.choice([j - 1, j - 1, j, rng.randint(1, nseg)])
            k = min(max(k, 1), nseg)
            g0 = g[k - 1]
            vals = sorted({gen._round(g0 * f, 3) for f in (0.5, 0.8, 1.0, 1.15, 1.4, 2.0)})
            vals = [v for v in vals if 2.0 < v < 500.0]
            jobs.append({'fn': 'gxv.jobs:multi_run', 'args': {'texts': chain_texts(base, f'Gradient {k}', vals)}, 'timeout': 300,
                         'meta': {'clause': 'bht-gradient', 'name': f'Gradient {k}', 'values': vals, 'cell': list(cell), 'nseg': nseg,
                                  'directed': 'cap-active-below-first-layer'}})
        else:
            vals = sorted(gen._round(rng.uniform(0.5, 1.0) * sum(h) + x, 3) for x in (0.0, 0.7, 1.5, 2.5, 4.0))
            vals = [v for v in vals if 0.1 <= v <= 15.0]
            jobs.append({'fn': 'gxv.jobs:multi_run', 'args': {'texts': chain_texts(base, 'Reservoir Depth', vals)}, 'timeout': 300,
                         'meta': {'clause': 'bht-depth', 'name': 'Reservoir Depth', 'values': vals, 'cell': list(cell), 'nseg': nseg,
                                  'directed': 'cap-active-below-first-layer'}})
    # (b) percentage drawdown rate
    for i in range(ctx.pick(40, 400)):
        cell = heat_cells[i % len(heat_cells)]
        base = gen.synth_case(rng, cell, costs=False, incentives=False, prices=False, addons=False, overpressure=False, sdac=False)
        gen.cset(base, 'Maximum Drawdown', 1)
        vals = sorted(gen._round(gen._logu(rng, 1e-4, 0.05), 4) for _ in range(4))
        jobs.append({'fn': 'gxv.jobs:multi_run', 'args': {'texts': chain_texts(base, 'Drawdown Parameter', vals)}, 'timeout': 300,
                     'meta': {'clause': 'drawdown-rate', 'name': 'Drawdown Parameter', 'values': vals, 'cell': list(cell)}})
    # (c) flow rate per well
    for i in range(ctx.pick(40, 400)):
        cell = cells[i % len(cells)]
        base = gen.synth_case(rng, cell, costs=False, incentives=False, prices=False, addons=False, overpressure=False, sdac=False)
        gen.cset(base, 'Ramey Production Wellbore Model', rng.choice([1, 1, 0]))
        if i % 2 == 0:
            vals = sorted(gen._round(rng.uniform(15, 140), 4) for _ in range(4))
        else:
            # the whole documented range [1, 500] kg/s, log-uniform (a trickle is an accepted input), now and then a bound itself
            vals = sorted({gen._round(gen._logu(rng, 1.0, 500.0), 4) for _ in range(5)} | ({1.0} if i % 8 == 1 else set()) | ({500.0} if i % 8 == 5 else set()))
        jobs.append({'fn': 'gxv.jobs:multi_run', 'args': {'texts': chain_texts(base, 'Production Flow Rate per Well', vals)},
                     'timeout': 300, 'meta': {'clause': 'flow-rate', 'name': 'Production Flow Rate per Well', 'values': vals,
                                              'cell': list(cell)}})
    # (e) cost inputs and adjustment factors
    for i in range(ctx.pick(140, 1500)):
        cell = cells[i % len(cells)]
        name, vals, kind = COST_INPUTS[i % len(COST_INPUTS)] if ctx.quick or rng.random() < 0.5 else rng.choice(COST_INPUTS)
        if kind == 'cost-heat-only' and cell[1] == 1:
            cell = (cell[0], 2, 9, cell[3])
        if kind == 'cost-heat-pump':
            cell = (cell[0], 2, 6, cell[3])
        if kind == 'cost-chiller':
            cell = (cell[0], 2, 5, cell[3])
        base = gen.synth_case(rng, cell, costs=True, incentives=True, prices=True, addons=False, overpressure=False, sdac=False)
        if name not in ('Total Capital Cost', 'Total O&M Cost'):
            # the varied input must actually feed the totals
            if 'Capital' in name or 'Drilling' in name:
                gen.cdel(base, 'Total Capital Cost')
            if 'O&M' in name or name.startswith('Water'):
                gen.cdel(base, 'Total O&M Cost')
        if kind in ('cost-heat-pump', 'cost-chiller'):
            gen.cdel(base, 'Surface Plant Capital Cost')          # the equipment share is only added to a correlated plant cost
            gen.cdel(base, 'Total Capital Cost')
            gen.cdel(base, 'Total O&M Cost')
        if name.endswith('Adjustment Factor'):
            gen.cdel(base, name.replace(' Adjustment Factor', ''))
        if name == 'Injection Well Drilling and Completion Capital Cost Adjustment Factor':
            gen.cdel(base, 'Well Drilling and Completion Capital Cost')
        if name == 'All-in Vertical Drilling Costs':
            gen.cdel(base, 'Well Drilling and Completion Capital Cost')
            gen.cset(base, 'Well Drilling Cost Correlation', 17)
        jobs.append({'fn': 'gxv.jobs:multi_run', 'args': {'texts': chain_texts(base, name, vals)}, 'timeout': 300,
                     'meta': {'clause': 'cost-input', 'name': name, 'values': vals, 'cell': list(cell)}})
    mon = ctx.mon
    with Pool(16) as pool:
        for r in pool.map(jobs, timeout=600):
            meta = r.job['meta']
            if r.status != 'ok':
                ctx.job_inconclusive(r.detail)
                continue
            if meta['clause'] == 'sweep':
                v = r.value
                mon.merge(v['mon'], case={'job_fn': 'gxv.props.c18:sweep_job'})
                ctx.evaluations += v['calls']
                ctx.coverage['direct_well_cost_calls'] = v['calls']
                ctx.coverage['well_cost_correlations_swept'] = v['correlations']
                continue
            texts = r.job['args']['texts']
            ctx.evaluations += len(texts)
            outs = r.value
            case = {'meta': meta, 'texts': texts}
            before = len(mon.viols)
            judge(mon, meta, outs)
            for v in mon.viols[before:]:
                v['case'] = case
            if sum(1 for o in outs if o['ok']) >= 2:
                ctx.distinct.add(gen.case_hash(texts[0] + meta['name']))
                ctx.sample({'clause': meta['clause'], 'varied': meta['name'], 'values': meta['values'], 'cell': meta['cell']}, limit=5)
            for o in outs:
                if not o['ok']:
                    ctx.reject(o['exc_type'], o['exc_msg'])
    ctx.required.update({'bht-monotone-in-gradient': 40, 'bht-monotone-in-depth': 40, 'tres-monotone-in-drawdown-rate': 60,
                         'tprod0-monotone-in-flow-rate': 60, 'well-cost-monotone-in-depth': 17, 'npv-monotone-in-cost': 200,
                         'levelized-cost-monotone-in-cost': 150})
    ctx.rule = ('ordered chains of 3-5 executions in which one parameter increases and everything else is fixed: each gradient '
                'and the depth (1..3 segments, models 3/4, including the heuristic thresholds 0.5/1/1.5 degC/km), the '
                'percentage drawdown rate (no redrilling), the flow rate per well (Ramey on/off), and every cost input / '
                'adjustment factor across its range (23 inputs, all economic models and end-uses); plus a dense sweep '
                '(1301 depths, 500-7000 m) of the real cost function of all well-cost correlations; adjacent pairs of every '
                'chain are judged; distinct = (base content hash, varied parameter); a chain is non-trivial when at least two '
                'of its runs are accepted')


def _pairs(outs, values):
    ok = [(v, o) for v, o in zip(values, outs) if o['ok']]
    return [(ok[i], ok[i + 1]) for i in range(len(ok) - 1)]


def judge(mon, meta, outs):
    cl = meta['clause']
    vals = meta['values']
    tag = {'varied': meta['name'], 'cell': meta['cell']}
    for (v0, a), (v1, b) in _pairs(outs, vals):
        if cl in ('bht-gradient', 'bht-depth'):
            t0, t1 = a.get('Trock'), b.get('Trock')
            if t0 is None or t1 is None:
                continue
            ok = t1 >= t0 - 1e-9 * abs(t0) - 1e-12
            mech = None
            if not ok:
                mech = 'C18/bottom-hole-temperature-decreases-with-' + ('gradient' if cl == 'bht-gradient' else 'depth')
                if cl == 'bht-gradient' and v0 <= 1.0:
                    mech = 'C18/gradient<=1-degC-per-km-read-as-degC-per-m'
            mon.check('bht-monotone-in-gradient' if cl == 'bht-gradient' else 'bht-monotone-in-depth', ok, mechanism=mech,
                      lower=v0, higher=v1, trock_lower=t0, trock_higher=t1, **tag)
        elif cl == 'drawdown-rate':
            x, y = a.get('Tres'), b.get('Tres')
            if not x or not y or len(x) != len(y) or a.get('redrill') or b.get('redrill'):
                mon.note('drawdown-pair-skipped')
                continue
            if x[-1] > x[0] or y[-1] > y[0]:
                mon.note('drawdown-pair-skipped-injection-hotter-than-rock')      # heating regime: the clause presupposes cooling
                continue
            bad = next((i for i, (p, q) in enumerate(zip(x, y)) if q > p + 1e-9 * abs(p) + 1e-12), None)
            mon.check('tres-monotone-in-drawdown-rate', bad is None, mechanism='C18/reservoir-temperature-rises-with-drawdown-rate',
                      lower=v0, higher=v1, index=bad, **tag)
        elif cl == 'flow-rate':
            x, y = a.get('Tprod'), b.get('Tprod')
            if not x or not y:
                continue
            ok = y[0] >= x[0] - 1e-9 * abs(x[0]) - 1e-12
            mon.check('tprod0-monotone-in-flow-rate', ok, mechanism='C18/initial-production-temperature-falls-with-flow-rate',
                      lower=v0, higher=v1, tprod0_lower=x[0], tprod0_higher=y[0], **tag)
        elif cl == 'cost-input':
            n0, n1 = a.get('ProjectNPV'), b.get('ProjectNPV')
            if n0 is not None and n1 is not None and math.isfinite(n0) and math.isfinite(n1):
                ok = n1 <= n0 + 1e-9 * abs(n0) + 1e-9
                mech = 'C18/npv-rises-with-cost-input:' + meta['name']
                comp = {'Surface Plant Capital Cost Adjustment Factor': 'Cplant', 'Field Gathering System Capital Cost Adjustment Factor': 'Cgath',
                        'Reservoir Stimulation Capital Cost Adjustment Factor': 'Cstim', 'Exploration Capital Cost Adjustment Factor': 'Cexpl',
                        'Well Drilling and Completion Capital Cost Adjustment Factor': 'Cwell'}.get(meta['name'])
                if not ok and comp and b.get(comp) is not None and b[comp] < 0:
                    # recognisable signature: the component the factor multiplies is itself negative (the correlation is driven by
                    # a negative peak heat extraction), so a larger factor is a smaller cost
                    mech = 'C18/npv-rises-with-cost-adjustment-factor-because-the-correlated-cost-is-negative:' + comp
                mon.check('npv-monotone-in-cost', ok, mechanism=mech, lower=v0, higher=v1,
                          npv_lower=n0, npv_higher=n1, component=None if not comp else b.get(comp), **tag)
            eu = meta['cell'][1]
            energies = {'LCOE': 'NetkWhProduced', 'LCOH': 'HeatkWhProduced', 'LCOC': 'cooling_kWh_Produced'}
            for name, ek in energies.items():
                l0, l1 = a.get(name), b.get(name)
                e = a.get(ek)
                if l0 is None or l1 is None or not math.isfinite(l0) or not math.isfinite(l1) or (l0 == 0 and l1 == 0):
                    continue
                if not e or not all(x > 0 for x in e):
                    mon.note('levelized-pair-skipped-energy-not-positive')
                    continue
                if a.get('cfg', {}).get('ptype') == 7:
                    pass
                ok = l1 >= l0 - 1e-9 * abs(l0) - 1e-12
                mech = f'C18/levelized-cost-falls-with-cost-input:{meta["name"]}'
                r_ = a.get('chp_ratio')
                if not ok and eu > 2 and r_ is not None and not (0.0 <= r_ <= 1.0):
                    mech = 'C18/cogeneration-cost-allocation-ratio-sentinel-used-as-a-ratio'
                mon.check('levelized-cost-monotone-in-cost', ok, mechanism=None if ok else mech,
                          which=name, lower=v0, higher=v1, lev_lower=l0, lev_higher=l1, **tag)


def replay(ctx, payload):
    from .. import jobs
    case = payload.get('case') or {}
    if case.get('job_fn') == 'gxv.props.c18:sweep_job':
        v = sweep_job()
        ctx.mon.merge(v['mon'])
    else:
        meta, texts = case.get('meta'), case.get('texts')
        if not meta:
            print('replay: no case')
            return 2
        judge(ctx.mon, meta, jobs.multi_run(texts))
    ctx.evaluations = 1
    for vv in ctx.mon.viols[:10]:
        print('replayed violation:', vv['mechanism'], str(vv['witness'])[:300])
    return 1 if ctx.mon.viols else 0
