"""C19 The published parameter schema matches what the simulator accepts.

Events: the real schema generators' output, the three committed schema files, the declarations of every parameter of
every module instance seen alive at the after_read hook in runs of every configuration family (plus every module class
reachable from Model, instantiated for completeness), the accept/reject behaviour of the reader at the *schema's* bounds
(C07's probe job fed with domains taken from the schema), and the client's extraction of every result-schema field from
a corpus of generated and stored reports."""
import glob
import json
import os

from .. import env, gen, runner
from ..pool import Pool
from ..verdict import Mon
from . import c07


def _norm_default(v):
    if isinstance(v, str):
        try:
            return float(v)
        except ValueError:
            return v
    if isinstance(v, bool):
        return v
    if isinstance(v, (int, float)):
        return float(v)
    if hasattr(v, 'int_value'):
        return float(v.int_value)
    return v


def generator_job():
    """Run the real generators; compare with the committed files; collect declarations of every reachable module class."""
    import geophires_x.GEOPHIRESv3  # noqa
    import geophires_x_schema_generator as G
    from .. import observe
    mon = Mon('C19')
    d = os.path.join(env.SRC, 'geophires_x_schema_generator')
    gx = G.GeophiresXSchemaGenerator()
    req, res = gx.generate_json_schema()
    hreq, _ = G.HipRaXSchemaGenerator().generate_json_schema()
    req, res, hreq = (json.loads(json.dumps(x)) for x in (req, res, hreq))
    out = {}
    for name, generated in (('geophires-request.json', req), ('geophires-result.json', res), ('hip-ra-x-request.json', hreq)):
        with open(os.path.join(d, name), encoding='utf-8') as f:
            committed = json.load(f)
        same = committed == generated
        diff = None
        if not same:
            a, b = committed.get('properties', {}), generated.get('properties', {})
            for k in sorted(set(a) | set(b)):
                if a.get(k) != b.get(k):
                    diff = {'property': k, 'committed': json.dumps(a.get(k), default=str)[:160], 'generated': json.dumps(b.get(k), default=str)[:160]}
                    break
            if diff is None:
                diff = {'other-than-properties': [k for k in set(committed) | set(generated) if committed.get(k) != generated.get(k)]}
        mon.check('generated-equals-committed', same, mechanism='C19/committed-schema-file-differs-from-generated:' + name, file=name, first_difference=diff)
    # every module class reachable from Model: the generator's own source list + classes Model imports
    import geophires_x.Model as M
    import inspect
    dummy = gx._get_dummy_model()
    classes = {}
    for nm, obj in vars(M).items():
        if inspect.isclass(obj) and obj.__module__.startswith('geophires_x.') and nm not in ('Model', 'Outputs', 'OutputsAddOns',
                                                                                         'OutputsS_DAC_GT', 'SUTRAOutputs', 'AGSOutputs'):
            if nm in ('EndUseOptions', 'PlantType'):
                continue
            classes[nm] = obj
    decls = {}
    for nm, cls in sorted(classes.items()):
        try:
            inst = cls(dummy)
        except Exception as ex:  # noqa
            mon.note('class-not-instantiable:' + nm + ':' + type(ex).__name__)
            continue
        pd = getattr(inst, 'ParameterDict', None)
        if not isinstance(pd, dict):
            continue
        decls[nm] = {k: _decl(observe.snap_param(v)) for k, v in pd.items()}
    for nm, inst in (('Outputs', dummy.outputs),):
        decls[nm] = {k: _decl(observe.snap_param(v)) for k, v in inst.ParameterDict.items() if hasattr(v, 'Name')}
    import hip_ra_x.hip_ra_x as H
    hdecl = {k: _decl(observe.snap_param(v)) for k, v in H.HIP_RA_X(enable_hip_ra_logging_config=False).ParameterDict.items()}
    out.update({'mon': mon.dump(), 'schema': req['properties'], 'hip_schema': hreq['properties'], 'result_schema': res['properties'],
                'class_decls': decls, 'hip_decl': hdecl, 'generator_sources': [type(s[0]).__name__ for s in gx.get_parameter_sources()]})
    return out


def _decl(p):
    mn, mx = p.Min, p.Max
    if p.cls == 'intParameter' and p.AllowableRange:
        mn, mx = min(p.AllowableRange), max(p.AllowableRange)
    return {'cls': p.cls, 'min': None if mn is None else float(mn), 'max': None if mx is None else float(mx),
            'default': _jsonable(_norm_default(p.DefaultValue)), 'units': p.CurrentUnits, 'pref': p.PreferredUnits,
            'required': bool(p.Required),
            # the value the object holds (for a freshly built module: what the simulator uses when the parameter is omitted)
            'held': _jsonable(_norm_default(p.value)) if isinstance(getattr(p.value, 'int_value', p.value), (int, float)) and not isinstance(p.value, bool) else None}


def _jsonable(v):
    if isinstance(v, (str, int, float, bool)) or v is None:
        return v
    if isinstance(v, list):
        return [_jsonable(x) for x in v]
    return repr(v)


TYPE_OF = {'floatParameter': 'number', 'intParameter': 'integer', 'boolParameter': 'boolean', 'strParameter': 'string',
           'listParameter': 'array'}


def live_job(family):
    """Declarations of the module instances alive at after_read in a run of this family."""
    text = c07.base_text(family)
    res = runner.run_text(text, want_snap=False, want_read=True, stop_after_read=True)
    if not res.ok or not res.read:
        return {'family': family, 'ok': False, 'error': f'{res.exc_type}: {res.exc_msg}'}
    return {'family': family, 'ok': True,
            'decls': {d['class']: {k: _decl(p) for k, p in d['params'].items()} for mod, d in res.read.items()}}


# Result-schema fields that, on the pinned tree, only stored reports under tests/ contain (key = "category||field"). They are
# not defects (the statement is satisfied: the client extracts them from a report); they are listed so that any OTHER field
# that stops being printed by the current writers is noticed.
_CLGS = 'printed only by the closed-loop (CLGS tabulated database) writer, which cannot run offline (emptied database file)'
_CCUS = 'CCUS block: no writer in this tree prints it; only stored reports of earlier versions contain it'
_OLD = 'label of an earlier report version; only stored reports contain it'
STORED_ONLY = {**{k: _CLGS for k in (
    'CAPITAL COSTS (M$)||Drilling Cost', 'CAPITAL COSTS (M$)||Total CAPEX', 'ENGINEERING PARAMETERS||Design',
    'ENGINEERING PARAMETERS||Flow rate', 'ENGINEERING PARAMETERS||Fluid', 'ENGINEERING PARAMETERS||Injection Temperature',
    'ENGINEERING PARAMETERS||Lateral Length', 'ENGINEERING PARAMETERS||Vertical Depth', 'ENGINEERING PARAMETERS||Wellbore Diameter',
    'OPERATING AND MAINTENANCE COSTS (M$/yr)||OPEX', 'RESERVOIR PARAMETERS||Thermal Conductivity',
    'RESERVOIR SIMULATION RESULTS||Average Heat Production', 'RESERVOIR SIMULATION RESULTS||Average Production Pressure',
    'RESERVOIR SIMULATION RESULTS||First Year Electricity Production', 'RESERVOIR SIMULATION RESULTS||First Year Heat Production',
    'SUMMARY OF RESULTS||End-Use', 'SUMMARY OF RESULTS||LCOE', 'SUMMARY OF RESULTS||LCOH',
    'SURFACE EQUIPMENT SIMULATION RESULTS||Surface Plant Cost')},
    **{k: _CCUS for k in (
        'CCUS ECONOMICS||Project IRR            (including carbon credit)', 'CCUS ECONOMICS||Project MOIC           (including carbon credit)',
        'CCUS ECONOMICS||Project NPV            (including carbon credit)', 'CCUS ECONOMICS||Project Payback Period (including carbon credit)',
        'CCUS ECONOMICS||Project VIR=IR=PIR     (including carbon credit)', 'CCUS ECONOMICS||Total Avoided Carbon Production')},
    **{k: _OLD for k in (
        'ENGINEERING PARAMETERS||Well depth (or total length, if not vertical)', 'SUMMARY OF RESULTS||Well depth (or total length, if not vertical)',
        'EXTENDED ECONOMICS||Project Payback Period       (including AddOns)')}}


def corpus_job(paths=None, texts=None):
    """Which result-schema fields does the client extract non-null from these reports?"""
    import contextlib
    from geophires_x_client.geophires_x_result import GeophiresXResult
    seen = set()
    n = 0
    for p in paths or []:
        with contextlib.suppress(Exception):
            r = GeophiresXResult(p).result
            n += 1
            _collect(r, seen)
    for t in texts or []:
        res = runner.run_text(t, want_snap=False, keep_files=True)
        if res.ok and res.report:
            with contextlib.suppress(Exception):
                r = GeophiresXResult(res.out_path).result
                n += 1
                _collect(r, seen)
        for q in (res.in_path, res.out_path, res.out_path[:-4] + '.json'):
            with contextlib.suppress(OSError):
                os.remove(q)
    return {'seen': sorted(seen), 'reports': n}


def _collect(result, seen):
    for cat, fields in result.items():
        if isinstance(fields, dict):
            for f, v in fields.items():
                if v is not None and not (isinstance(v, dict) and v.get('value') is None):
                    seen.add(f'{cat}||{f}')


def run(ctx):
    jobs = [{'fn': 'gxv.props.c19:generator_job', 'args': {}, 'timeout': 900, 'kind': 'gen'}]
    fams = list(c07.FAMILIES)
    for fam in fams:
        jobs.append({'fn': 'gxv.props.c19:live_job', 'args': {'family': fam}, 'timeout': 600, 'kind': 'live'})
    stored = sorted(glob.glob(os.path.join(env.REPO, 'tests', '**', '*.out'), recursive=True))
    for i in range(0, len(stored), 8):
        jobs.append({'fn': 'gxv.props.c19:corpus_job', 'args': {'paths': stored[i:i + 8]}, 'timeout': 600, 'kind': 'corpus'})
    cells = gen.grid_cells(res_models=(3, 4))
    ctx.rng.shuffle(cells)
    texts = [gen.render(gen.synth_case(ctx.rng, cells[i % len(cells)])) for i in range(ctx.pick(160, 1500))]
    # directed members of the corpus for conditionally printed lines (independent of the seed)
    import random
    drng = random.Random('c19-directed')
    for k, cell in enumerate([(1, 1, 1, 4), (2, 2, 9, 4), (3, 31, 2, 4), (2, 1, 1, 3)] * 2):
        c = gen.synth_case(drng, cell, costs=False, addons=False, overpressure=False, sdac=False)
        # fixed total capital cost + redrilling: 'Drilling and completion costs (for redrilling)' block
        gen.cset(c, 'Total Capital Cost', 60 + k)
        gen.cset(c, 'Maximum Drawdown', 0.03)
        gen.cset(c, 'Plant Lifetime', 30)
        gen.cset(c, 'Drawdown Parameter', 0.02 if cell[3] == 4 else 2e-4)
        texts.append(gen.render(c))
    for nm in gen.FAST_EXAMPLES + ['example1_addons', 'example12_DH', 'SUTRAExample1', 'Wanju_Yuan_Closed-Loop_Geothermal_Energy_Recovery',
                                   'example_overpressure', 'example1', 'example2', 'Fervo_Project_Cape']:
        case, raw = gen.example_case(nm)
        texts.append(gen.render(case, raw))
    for i in range(0, len(texts), 12):
        jobs.append({'fn': 'gxv.props.c19:corpus_job', 'args': {'texts': texts[i:i + 12]}, 'timeout': 900, 'kind': 'corpus'})
    genout = None
    live = {}
    seen = set()
    seen_current = set()
    reports = 0
    with Pool(16) as pool:
        for r in pool.map(jobs, timeout=900):
            if r.status != 'ok':
                ctx.job_inconclusive(r.detail)
                continue
            k = r.job['kind']
            if k == 'gen':
                genout = r.value
            elif k == 'live':
                if r.value['ok']:
                    live[r.value['family']] = r.value['decls']
                else:
                    ctx.mon.note('family-not-readable:' + r.value['family'])
            else:
                seen.update(r.value['seen'])
                if r.job['args'].get('texts'):
                    seen_current.update(r.value['seen'])          # reports written by the writers of the tree under test
                reports += r.value['reports']
    if genout is None:
        ctx.mon.inconclusive('generated-equals-committed', 'generator-job-failed')
        ctx.required['generated-equals-committed'] = 3
        return
    mon = ctx.mon
    mon.merge(genout['mon'])
    schema = genout['schema']
    # ---- union of everything alive or reachable
    union = {}          # name -> list of (class, decl)
    for cls, params in genout['class_decls'].items():
        for name, d in params.items():
            union.setdefault(name, []).append((cls, d))
    alive_classes = set()
    for fam, decls in live.items():
        for cls, params in decls.items():
            alive_classes.add(cls)
            for name, d in params.items():
                if (cls, d) not in union.setdefault(name, []):
                    union[name].append((cls, d))
    sources = set(genout['generator_sources'])
    for name, defs in sorted(union.items()):
        in_schema = name in schema
        mech = None
        if not in_schema:
            mods = sorted({c for c, _ in defs})
            mech = 'C19/accepted-parameter-missing-from-schema:module=' + '+'.join(m for m in mods if m not in sources)[:120]
        mon.check('accepted-parameter-in-schema', in_schema, mechanism=mech, parameter=name, modules=sorted({c for c, _ in defs})[:4])
        ctx.evaluations += 1
        ctx.distinct.add(('param', name))
    for name in sorted(schema):
        mon.check('schema-parameter-accepted', name in union, mechanism='C19/schema-lists-a-parameter-no-module-accepts', parameter=name)
    # ---- redefined parameters (detected, not hard-coded)
    redefined = {}
    for name, defs in union.items():
        keys = {json.dumps({k: d[k] for k in ('cls', 'min', 'max', 'default', 'pref')}, sort_keys=True, default=str) for _, d in defs}
        if len(keys) > 1:
            redefined[name] = sorted({c for c, _ in defs})
    ctx.coverage['redefined_parameters_detected'] = redefined
    # ---- schema type / default / unit / bounds equal the live declaration
    for name, defs in sorted(union.items()):
        if name not in schema:
            continue
        sc = schema[name]
        d = defs[0][1]
        mon.check('schema-type', sc.get('type') == TYPE_OF.get(d['cls']), mechanism='C19/schema-type-differs-from-declaration',
                  parameter=name, schema=sc.get('type'), live=d['cls'])
        if name in redefined:
            mon.note('bound-default-clause-not-claimed-for-redefined-parameter')
            continue
        if d['cls'] in ('floatParameter', 'intParameter'):
            smin, smax = sc.get('minimum'), sc.get('maximum')
            ok = smin is not None and smax is not None and float(smin) == d['min'] and float(smax) == d['max']
            mon.check('schema-bounds', ok, mechanism='C19/schema-bounds-differ-from-enforced-bounds:' + name, parameter=name,
                      schema=[smin, smax], live=[d['min'], d['max']])
            sd = sc.get('default')
            try:
                okd = abs(float(sd) - float(d['default'])) <= 1e-9 * max(1.0, abs(float(sd)))      # 7.0 vs 7.000000000000001
            except (TypeError, ValueError):
                okd = sd == d['default']
            mon.check('schema-default', okd, mechanism='C19/schema-default-differs-from-declaration:' + name, parameter=name, schema=sd,
                      live=d['default'])
            # ... and the published default is what a freshly built module actually starts from (the value used when the
            # parameter is omitted); judged on the generator's own freshly built instances
            fresh = [dd for cls_, dd in defs if cls_ in genout['class_decls'] and dd.get('held') is not None]
            if fresh and sd is not None:
                try:
                    held = float(fresh[0]['held'])
                    okh = abs(float(sd) - held) <= 1e-9 * max(1.0, abs(float(sd)))
                    mon.check('schema-default-is-the-value-used-when-omitted', okh,
                              mechanism='C19/schema-default-differs-from-the-value-used-when-the-parameter-is-omitted:' + name,
                              parameter=name, schema_default=sd, value_held_by_a_fresh_module=held)
                except (TypeError, ValueError):
                    pass
        su = sc.get('units')
        mon.check('schema-units', (su or None) == (d['units'] or None) or (su is None and d['units'] in (None, 'None')),
                  mechanism='C19/schema-unit-differs-from-declaration', parameter=name, schema=su, live=d['units'])
    # HIP-RA-X request schema
    hs, hd = genout['hip_schema'], genout['hip_decl']
    for name, d in hd.items():
        mon.check('accepted-parameter-in-schema', name in hs, mechanism='C19/accepted-parameter-missing-from-schema:HIP-RA-X', parameter=name)
        if name in hs and d['cls'] == 'floatParameter':
            sc = hs[name]
            ok = sc.get('minimum') is not None and float(sc['minimum']) == d['min'] and float(sc['maximum']) == d['max']
            mon.check('schema-bounds', ok, mechanism='C19/schema-bounds-differ-from-enforced-bounds:HIP-RA-X:' + name, parameter='HIP-RA-X:' + name,
                      schema=[sc.get('minimum'), sc.get('maximum')], live=[d['min'], d['max']])
    # ---- enforcement at the schema's bounds (reader behaviour, as C07 observes it)
    pjobs = []
    from .c06 import catalogue
    from .. import units as U
    import math
    cat = catalogue()
    unit_type_of = {}
    for ut_, us in cat.items():
        for u_ in us:
            unit_type_of.setdefault(u_, ut_)
    for fam in ctx.pick(['std-4-orc', 'std-3-cogen-flash', 'dh', 'addons', 'sbt', 'sutra'], fams):
        if fam not in live:
            continue
        names = {n for params in live[fam].values() for n in params}
        probes = []
        unit_probes = []
        for name in sorted(names):
            if name not in schema or name in redefined:
                continue
            sc = schema[name]
            if sc.get('type') not in ('number', 'integer') or sc.get('minimum') is None or sc.get('maximum') is None:
                continue
            lo, hi = float(sc['minimum']), float(sc['maximum'])
            if sc['type'] == 'integer':
                vals = [(int(lo) - 1, 'below-min'), (int(lo), 'min'), (int(hi), 'max'), (int(hi) + 1, 'above-max')]
            else:
                if abs(lo) > 1e29 or abs(hi) > 1e29:
                    continue
                vals = [(lo - c07._eps(lo), 'below-min'), (lo, 'min'), (hi, 'max'), (hi + c07._eps(hi), 'above-max'),
                        (-(abs(lo) + abs(hi) + 1.5), 'far-below-min'), ((abs(lo) + abs(hi)) * 10.0 + 1.5, 'far-above-max')]
                # the published bound also binds a value written in another listed unit
                pref = sc.get('units')
                ut = unit_type_of.get(pref)
                if ut and ut not in c07.CURRENCY_TYPES and hi > lo:
                    others = [u for u in cat[ut] if u and u != pref]
                    if others:
                        u = others[(len(name) + len(others)) % len(others)]
                        for kind, v in (('above-max-other-unit', hi + 0.05 * (hi - lo) + 1e-6), ('below-min-other-unit', lo - 0.05 * (hi - lo) - 1e-6)):
                            try:
                                conv = U.convert(v, pref, u)
                                back = U.convert(conv, u, pref)
                            except ValueError:
                                continue
                            if math.isfinite(conv) and abs(back - v) <= 1e-9 * max(1.0, abs(v)):
                                unit_probes.append({'name': name, 'value': v, 'kind': kind,
                                                    'dom': {'source': 'schema', 'min': lo, 'max': hi, 'text': f'{conv!r} {u}', 'unit': u}})
            for v, kind in vals:
                try:
                    if sc.get('default') is not None and float(sc['default']) == float(v) and kind in ('below-min', 'above-max'):
                        continue
                except (TypeError, ValueError):
                    pass
                probes.append({'name': name, 'value': v, 'kind': kind, 'dom': {'source': 'schema', 'min': lo, 'max': hi}})
        probes += unit_probes
        text = c07.base_text(fam)
        for i in range(0, len(probes), 60):
            pjobs.append({'fn': 'gxv.props.c07:probe_job', 'args': {'text': text, 'probes': probes[i:i + 60], 'family': fam}, 'timeout': 600})
    rename = {'out-of-range-rejected': 'schema-bound-enforced', 'bound-accepted': 'schema-bound-accepted', 'bound-used': 'schema-bound-used',
              'reaches-reader': 'schema-parameter-reaches-reader', 'error-names-parameter': 'schema-bound-error-names-parameter'}
    with Pool(16) as pool:
        for r in pool.map(pjobs, timeout=600):
            if r.status != 'ok':
                ctx.job_inconclusive(r.detail)
                continue
            d = r.value['mon']
            d['evals'] = {rename.get(k, k): v for k, v in d['evals'].items()}
            for v in d['viols']:
                v['clause'] = rename.get(v['clause'], v['clause'])
                v['mechanism'] = v['mechanism'].replace('C07/', 'C19/enforcement:')
                if 'out-of-range-value-accepted' in v['mechanism'] or 'documented-bound-rejected' in v['mechanism']:
                    v['mechanism'] += ':' + str((v.get('witness') or {}).get('parameter'))
                v['property'] = 'C19'
            mon.merge(d, case={'family': r.job['args']['family']})
            ctx.evaluations += r.value['n']
    # ---- every result-schema field is extractable from some report of the corpus
    rs = genout['result_schema']
    missing = []
    for cat, spec in rs.items():
        for f in (spec.get('properties') or {}):
            key = f'{cat}||{f}'
            ok = key in seen
            mon.check('result-field-extractable', ok, mechanism='C19/result-schema-field-never-extracted:' + cat + '/' + f, category=cat, field=f)
            if ok:
                # ... and from a report the current writers produce, not only from stored reports of the past (fields that only
                # unreachable configurations print are listed, with the reason, in STORED_ONLY)
                cur = key in seen_current
                if not cur and key in STORED_ONLY:
                    mon.note('result-field-only-in-stored-reports-of-unreachable-configurations')
                else:
                    mon.check('result-field-extractable-from-a-current-report', cur,
                              mechanism='C19/result-schema-field-extracted-only-from-stored-reports:' + cat + '/' + f, category=cat, field=f)
            ctx.distinct.add(('field', key))
            if not ok:
                missing.append(key)
    ctx.coverage.update({'families_alive': sorted(live), 'module_classes_alive': sorted(alive_classes),
                         'module_classes_instantiated_for_completeness': sorted(genout['class_decls']),
                         'generator_sources': genout['generator_sources'], 'parameters_in_union': len(union),
                         'parameters_in_schema': len(schema), 'corpus_reports': reports, 'result_fields_in_schema': sum(
                             len(s.get('properties') or {}) for s in rs.values()), 'result_fields_never_extracted': missing})
    ctx.sample({'parameter': 'Reservoir Depth', 'schema': schema.get('Reservoir Depth'), 'live': union.get('Reservoir Depth', [[None, None]])[0][1]})
    ctx.sample({'redefined': redefined})
    ctx.exhaustive = True
    ctx.required.update({'generated-equals-committed': 3, 'accepted-parameter-in-schema': 200, 'schema-parameter-accepted': 200,
                         'schema-bounds': 120, 'schema-default': 120, 'schema-type': 200, 'schema-bound-enforced': 200,
                         'schema-bound-accepted': 200, 'result-field-extractable': 200})
    ctx.rule = ('every parameter of every module instance alive at the after_read hook in runs of 17 configuration families, '
                'united with every module class importable from geophires_x.Model instantiated on a dummy model, is compared '
                'with the generated request schema (membership both ways, type, default, unit, bounds; parameters whose '
                'declarations differ between classes are detected and exempted from the bound/default clause); the three '
                'committed schema files are compared with the generators\' output; the reader is probed at the schema\'s own '
                'bounds; every field of the result schema must be extracted non-null by the client from at least one report '
                'of a corpus of generated and stored reports; distinct = parameters + result fields judged (finite domain, '
                'enumerated completely)')


def replay(ctx, payload):
    print('C19 decides on whole-repository state; replay = re-run the check')
    run(ctx)
    from ..check import finish
    return finish(ctx)
