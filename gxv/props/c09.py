"""C09 The case report states what was computed."""
from .. import workload
from .common import grid_check


def run(ctx):
    grid_check(ctx, 'c09', nontrivial_note='c09-nontrivial', also=('c04', 'c02'), quick_fast=800, quick_slow=40,
               thorough_fast=8000, thorough_slow=500,
               required={'labelled-line': 20000, 'line-present': 20000, 'table-rows': 1500, 'table-cells': 1200,
                         'table-years-consecutive': 1200},
               rule='grid walk (see C01) over every end-use / plant-type / economic-model / reservoir-model branch of the '
                    'report writer with lifetimes 1..100, construction years 1..14, time steps per year 1..12, fixed-total '
                    'vs component cost tables, redrilling, overpressure table, carbon, add-ons; every labelled line and '
                    'profile-table cell produced by an independent tokenizer is compared, through a hand-written report '
                    'map, with the snapshot taken between Calculate and PrintOutputs (printed figure = computed quantity '
                    'converted to the printed unit by the harness\'s own pint registry and rounded to the displayed '
                    'precision); distinct by input content hash; every accepted standard-writer run is non-trivial '
                    '(80-100 mapped lines and 3-5 tables each)')
    notes = ctx.mon.notes
    unm = {k[9:]: v for k, v in notes.items() if k.startswith('unmapped:')}
    ctx.coverage['unmapped_labelled_lines'] = dict(sorted(unm.items(), key=lambda kv: -kv[1])[:80])
    ctx.coverage['unmapped_tables'] = {k[15:]: v for k, v in notes.items() if k.startswith('unmapped-table:')}
    ctx.coverage['table_cells_compared'] = ctx.mon.evals.get('table-cells-count', 0)
    ctx.assumptions.append('labelled lines and tables that are not in the report map (S-DAC-GT, SUTRA and AGS writers, a few '
                           'reservoir lines) are counted as unmapped: they are neither evidence nor alarms')


def replay(ctx, payload):
    return workload.replay_run_oracles(ctx, payload)
