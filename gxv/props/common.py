"""Shared shape of the single-run-oracle checks (C01-C05, C09, C15, C16): grid walk + examples."""
from .. import gen, workload


def grid_check(ctx, own, *, nontrivial_note=None, quick_fast=900, quick_slow=48, thorough_fast=9000, thorough_slow=600,
               also=(), required=None, rule='', synth_kw=None, extra_jobs=None, examples=True, sbt=True):
    oracles = [own] + [o for o in also if o != own]
    synth_kw = synth_kw or {}
    jobs = []
    jobs += workload.synth_jobs(ctx, oracles, ctx.pick(quick_fast, thorough_fast), res_models=(3, 4), **synth_kw)
    jobs += workload.synth_jobs(ctx, oracles, ctx.pick(quick_slow, thorough_slow), res_models=(1, 2), **synth_kw)
    # cells outside the main walk (direct-use heat with a power-plant type code; cylindrical reservoir)
    jobs += workload.synth_jobs(ctx, oracles, max(24, ctx.pick(quick_fast, thorough_fast) // 12), cells=gen.odd_cells(), **synth_kw)
    if examples:
        names = gen.FAST_EXAMPLES + gen.SLOW_EXAMPLES
        jobs += workload.example_jobs(ctx, oracles, names, perturbed=ctx.pick(1, 8))
        if sbt:
            # closed-loop SBT family (SBTEconomics / SBTWellbores / SBTReservoir, 10-15 s per run): the shipped cases, each
            # also with several construction years (directed: the shipped ones use the default single year), and redrawn
            # economic parameters
            sbt_names = ['example_SBT_Lo_T', 'example_SBT_Hi_T']
            jobs += workload.example_jobs(ctx, oracles, sbt_names, perturbed=0)
            for k in range(ctx.pick(6, 36)):
                name = sbt_names[k % 2]
                case, raw = gen.sbt_case(ctx.rng, name, k)
                jobs.append({'fn': 'gxv.jobs:run_oracles',
                             'args': {'text': gen.render(case, raw), 'oracles': oracles, 'tag': {'example': name, 'sbt_variant': k}},
                             'timeout': 900})
    if extra_jobs:
        jobs += extra_jobs
    # slow jobs first so the pool's tail is short
    jobs.sort(key=lambda j: -j.get('timeout', 0))
    workload.run_grid(ctx, jobs, own, nontrivial_note=nontrivial_note)
    ctx.required.update(required or {})
    ctx.rule = rule
    ctx.assumptions += [
        'reference models in gxv/ref and the oracles in gxv/oracles_*.py are trusted (short, cross-checked on all shipped examples)',
        'numpy / pint / CoolProp / the interpreter are trusted',
        'inputs the simulator rejects or that fail numerically are not accepted inputs; they are counted by exception class',
        'not reachable offline: TOUGH2 reservoir (no executable), CLGS tabulated database (emptied .h5)',
        'comparisons: rel 1e-9 + small absolute term between reference and code (both double precision, different operation order)',
    ]
