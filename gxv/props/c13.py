"""C13 Monte Carlo iterations are independent draws from the requested distributions.

The real Monte-Carlo client is driven under forced worker counts {1,2,4,16,32} with random sleeps injected around the
row append.  Events: the settings, a per-pid log written at the client boundary inside each forked worker (sampled values
of each iteration and whether it completed after_print), and the rows of the result file.  Offline checker: sample
vectors pairwise distinct (witness for replication: same vector from two pids), every sample in its support, marginal
KS tests at alpha = 1e-6 for large runs, rows = exactly one per completed iteration (multiset equality)."""
import collections
import hashlib
import json

from .. import mc
from ..pool import Pool

ALPHA = 1e-6


def mc_job(settings, workers, delay):
    out = mc.run_mc(settings, workers=workers, delay=delay)
    return out


def check_c13(mon, settings, out, tag):
    if out.get('error') and not out.get('result_text'):
        if settings.get('failure', 0) >= 0.9 and 'No MC results generated' in out['error']:
            mon.note('all-iterations-failed-run')
            return 0
        mon.inconclusive('rows-exactly-once', 'mc-run-error:' + out['error'][:60])
        return 0
    header, rows, bad, stats = mc.parse_result(out['result_text'], settings)
    dists = {nm: d for nm, d in settings['inputs']}
    cont = [nm for nm, d in settings['inputs'] if d[0] != 'binomial']
    # ---- events from the workers
    begins = {}
    done = set()
    for e in out['events']:
        if e['stage'] == 'begin' and e.get('tail') is not None:
            begins[e['input']] = e
        elif e['stage'] == 'after_print':
            done.add(e['input'])
    started = len(begins)
    mon.check('every-iteration-started', started == settings['iterations'], mechanism='C13/iterations-started-differs-from-requested',
              started=started, requested=settings['iterations'], **tag)
    completed = collections.Counter(mc.tail_key(e['tail']) for p, e in begins.items() if p in done)
    rowkeys = collections.Counter(r['key'] for r in rows)
    missing = list((completed - rowkeys).elements())
    extra = list((rowkeys - completed).elements())
    mech = None
    if missing or extra:
        mech = 'C13/rows-lost' if missing and not extra else ('C13/rows-without-a-completed-iteration' if extra and not missing
                                                               else 'C13/rows-do-not-match-completed-iterations')
    mon.check('rows-exactly-once', not missing and not extra, mechanism=mech, completed=sum(completed.values()),
              rows=len(rows), missing=missing[:2], extra=extra[:2], **tag)
    if sum(completed.values()) < started:
        mon.note('run-with-failed-iterations')
    # ---- distinctness of the continuous sample vectors, across all iterations that started (rows or not)
    vec_pid = collections.defaultdict(list)
    for p, e in begins.items():
        vals = dict(ln.split(', ', 1) for ln in e['tail'] if ', ' in ln)
        key = tuple(vals.get(nm) for nm in cont)
        vec_pid[key].append(e['pid'])
    if cont and started > 1:
        dup = {k: v for k, v in vec_pid.items() if len(v) > 1}
        wit = None
        if dup:
            k, pids = next(iter(dup.items()))
            wit = {'vector': dict(zip(cont, k)), 'pids': pids[:6], 'distinct_vectors': len(vec_pid), 'iterations': started}
        mon.check('sample-vectors-distinct', not dup, mechanism='C13/replicated-draws-across-workers' if dup and len(set(next(iter(dup.values())))) > 1
                  else 'C13/replicated-draws', witness_=wit, **tag)
    # ---- per input: no value of a continuous input is drawn twice, and no two workers draw the same sequence
    per_pid = collections.defaultdict(lambda: collections.defaultdict(list))      # input -> pid -> [(t, value)]
    for p, e in begins.items():
        for ln in e['tail']:
            if ', ' in ln:
                nm, v = ln.split(', ', 1)
                per_pid[nm][e['pid']].append((e['t'], v))
    for nm, bypid in per_pid.items():
        d = dists.get(nm)
        if d is None:
            continue
        seqs = {pid: [v for _, v in sorted(xs)] for pid, xs in bypid.items()}
        if d[0] != 'binomial':
            allv = [v for sq in seqs.values() for v in sq]
            cnt = collections.Counter(allv)
            rep = [(v, n) for v, n in cnt.items() if n > 1]
            if len(allv) > 1:
                wit = None
                if rep:
                    v, n = rep[0]
                    wit = {'value': v, 'times': n, 'pids': [pid for pid, sq in seqs.items() if v in sq][:6], 'distinct': len(cnt), 'draws': len(allv)}
                mon.check('continuous-input-values-distinct', not rep, mechanism='C13/replicated-draws-of-one-input-across-workers:' + d[0]
                          if rep and len(wit['pids']) > 1 else 'C13/replicated-draws-of-one-input:' + d[0], name=nm, witness_=wit, **tag)
            if len(allv) >= 8:
                # a draw from a continuous distribution is a double with 15-17 significant digits; values cut to a handful of
                # digits on their way into the input file are draws from a coarse grid, not from the requested distribution
                def sig(txt):
                    m = txt.strip().lower().lstrip('+-').split('e')[0].replace('.', '').lstrip('0')
                    return len(m.rstrip('0')) if m else 0
                short = [v for v in allv if sig(v) <= 8]
                mon.check('continuous-samples-not-discretised', len(short) < 0.5 * len(allv),
                          mechanism='C13/continuous-samples-cut-to-a-few-significant-digits:' + d[0], name=nm,
                          short=len(short), draws=len(allv), examples=short[:4], **tag)
        else:
            # discrete input: two workers with identical sequences of >= 12 draws (chance < 1e-7 per pair for the settings used)
            pids = [pid for pid, sq in seqs.items() if len(sq) >= 12]
            same = None
            for i in range(len(pids)):
                for j in range(i + 1, len(pids)):
                    a, b = seqs[pids[i]], seqs[pids[j]]
                    m = min(len(a), len(b))
                    if a[:m] == b[:m]:
                        same = {'pids': [pids[i], pids[j]], 'common_prefix': a[:m][:16], 'length': m}
                        break
                if same:
                    break
            if len(pids) >= 2:
                mon.check('worker-sequences-differ', same is None, mechanism='C13/replicated-draws-of-one-input-across-workers:binomial',
                          name=nm, witness_=same, **tag)
    # ---- support + marginals
    samples = collections.defaultdict(list)
    for p, e in begins.items():
        for ln in e['tail']:
            if ', ' in ln:
                nm, v = ln.split(', ', 1)
                try:
                    samples[nm].append(float(v))
                except ValueError:
                    mon.bad('samples-in-support', mechanism='C13/sample-not-a-number', name=nm, value=v, **tag)
    for nm, xs in samples.items():
        d = dists.get(nm)
        if d is None:
            continue
        out_of = [x for x in xs if not mc.in_support(d, x)]
        mon.check('samples-in-support', not out_of, mechanism='C13/sample-outside-support:' + d[0], name=nm, dist=d, values=out_of[:3], **tag)
        if len(xs) >= 100:
            f = mc.cdf(d)
            if f is not None:
                from scipy import stats
                stat, p = stats.kstest(xs, f)
                mon.check('marginal-distribution', p >= ALPHA, mechanism='C13/marginal-does-not-follow-requested-distribution:' + d[0],
                          name=nm, dist=d, n=len(xs), ks=float(stat), p=float(p), **tag)
            elif d[0] == 'binomial':
                from scipy import stats
                n, pr = int(d[1]), float(d[2])
                obs = collections.Counter(int(x) for x in xs)
                exp = [stats.binom.pmf(k, n, pr) * len(xs) for k in range(n + 1)]
                # pool cells with small expectation
                o2, e2, oo, ee = [], [], 0.0, 0.0
                for k in range(n + 1):
                    oo += obs.get(k, 0)
                    ee += exp[k]
                    if ee >= 5:
                        o2.append(oo)
                        e2.append(ee)
                        oo = ee = 0.0
                if ee > 0 and e2:
                    o2[-1] += oo
                    e2[-1] += ee
                if len(e2) >= 2:
                    chi, p = stats.chisquare(o2, e2)
                    mon.check('marginal-distribution', p >= ALPHA, mechanism='C13/marginal-does-not-follow-requested-distribution:binomial',
                              name=nm, dist=d, n=len(xs), chi2=float(chi), p=float(p), **tag)
    # ---- tails of the normal inputs (pooled over the inputs of the run, in units of the requested standard deviation): with
    # N >= 5200 draws the chance that none lies beyond 3 sigma is 0.9973^N < 1e-6; the upper limit is 10 sigma of the count
    zs = []
    for nm, xs in samples.items():
        d = dists.get(nm)
        if d is not None and d[0] == 'normal' and float(d[2]) > 0:
            zs += [(x - float(d[1])) / float(d[2]) for x in xs]
    if len(zs) >= 5200:
        k = sum(1 for z in zs if abs(z) > 3.0)
        m = len(zs) * 0.0026998
        mon.check('normal-tails-present', 1 <= k <= m + 10.0 * m ** 0.5 + 10, mechanism='C13/tails-of-the-normal-distribution-missing-or-inflated',
                  draws=len(zs), beyond_3_sigma=k, expected=round(m, 1), max_abs_z=max(abs(z) for z in zs), **tag)
    pids = {e['pid'] for e in out['events']}
    return len(pids)


def schedules(ctx):
    rng = ctx.rng
    plans = []
    G, H = 'GEOPHIRES', 'HIP-RA-X'
    if ctx.quick:
        combos = [(1, 1, G), (3, 2, H), (16, 4, G), (17, 16, G), (40, 16, H), (40, 32, G), (40, 1, G), (120, 16, H), (300, 16, G),
                  (40, 2, H), (16, 32, G), (300, 8, H), (300, 32, H), (320, 4, H)]
    else:
        combos = [(i, w, G if (i + w) % 3 else H) for i in (1, 3, 16, 17, 40) for w in (1, 2, 4, 16, 32)] + \
                 [(300, 16, G), (300, 32, H), (300, 4, G), (1000, 16, G), (1000, 32, H), (120, 16, G), (120, 2, H),
                  (300, 16, H), (300, 32, G), (300, 8, G), (1000, 16, H), (1000, 32, G), (120, 16, H), (600, 4, G)]
    for idx, (iters, w, program) in enumerate(combos):
        # failing subsets: deterministic places in the schedule so that both failure rates are always observed
        failure = 0.0
        if iters == 40 and w in (16, 2):
            failure = 0.3
        elif iters == 120 or (iters == 40 and w == 32):
            failure = 0.9 if program == H or iters == 40 else 0.3
        elif not ctx.quick and iters in (300, 1000) and w == 32:
            failure = 0.3
        elif iters == 320:
            failure = 0.3          # many iterations AND failures: batching / early-exit effects need both
        kinds = None
        if iters >= 100:
            kinds = ['uniform', 'normal', 'triangular', 'lognormal', 'binomial'] if program == 'GEOPHIRES' else \
                ['uniform', 'normal', 'triangular', 'lognormal']
        st = mc.make_settings(rng, program, iters, failure=failure, kinds=kinds, n_inputs=5 if kinds else None)
        if iters >= 100 and not failure:
            # a triangular input whose mode sits exactly on one of its bounds (numpy accepts left <= mode <= right)
            if program == G:
                st = mc.with_input(st, 'Ambient Temperature', ('triangular', 10, 10, 25) if idx % 2 else ('triangular', 5, 25, 25))
            else:
                st = mc.with_input(st, 'Reservoir Thickness', ('triangular', 0.12, 0.3, 0.3) if idx % 2 else ('triangular', 0.12, 0.12, 0.3))
        delay = rng.choice([0.0, 0.004, 0.02])
        if iters >= 300 and w == 32 and program == H:
            delay = 0.03          # stress run: many fast iterations contending for the lock, long holds -> lock timeouts
        if iters == 40 and w == 1 or (iters == 17 and w == 16):
            st['stale_lock'] = True       # result directory with the lock file of an earlier, killed run
        plans.append((st, w, delay))
    return plans


def run(ctx):
    plans = schedules(ctx)
    jobs = [{'fn': 'gxv.props.c13:mc_job', 'args': {'settings': st, 'workers': w, 'delay': d},
             'timeout': 900 + st['iterations']} for st, w, d in plans]
    # directed run for the tails: five normal inputs (means at least 6 sigma inside the parameters' ranges, so that no iteration
    # fails because of a tail draw), enough fast HIP-RA-X iterations for 5200+ pooled draws
    n_t = ctx.pick(1100, 4000)
    t_inputs = [('Reservoir Temperature', ['normal', 150, 8]), ('Rejection Temperature', ['normal', 25, 2]),
                ('Reservoir Porosity', ['normal', 18, 2]), ('Reservoir Area', ['normal', 80, 6]), ('Reservoir Thickness', ['normal', 0.2, 0.01])]
    t_st = {'program': 'HIP-RA-X', 'inputs': t_inputs, 'outputs': mc.HIP_OUTPUTS[:1], 'iterations': n_t, 'failure': 0.0,
            'text': '\n'.join([f'INPUT, {nm}, {d[0]}, {d[1]}, {d[2]}' for nm, d in t_inputs] + [f'OUTPUT, {mc.HIP_OUTPUTS[0]}', f'ITERATIONS, {n_t}']) + '\n'}
    jobs.append({'fn': 'gxv.props.c13:mc_job', 'args': {'settings': t_st, 'workers': 16, 'delay': 0.0}, 'timeout': 1800})
    plans = plans + [(t_st, 16, 0.0)]
    jobs.sort(key=lambda j: -j['args']['settings']['iterations'])
    npids = 0
    with Pool(5) as pool:
        for r in pool.map(jobs, timeout=2400):
            a = r.job['args']
            st = a['settings']
            ctx.evaluations += st['iterations']
            if r.status != 'ok':
                ctx.job_inconclusive(r.detail)
                continue
            tag = {'program': st['program'], 'iterations': st['iterations'], 'workers': a['workers'], 'delay': a['delay'],
                   'failure': st['failure']}
            before = len(ctx.mon.viols)
            npids += check_c13(ctx.mon, st, r.value, tag) or 0
            case = {'settings': st, 'workers': a['workers'], 'delay': a['delay']}
            for v in ctx.mon.viols[before:]:
                v['case'] = case
            ctx.distinct.add(hashlib.sha1(json.dumps([st['text'], a['workers'], a['delay']]).encode()).hexdigest())
            ctx.sample({'settings': st['text'].split('\n')[:-1], 'workers': a['workers'], 'delay_s': a['delay'],
                        'events': len(r.value['events']), 'wall_s': round(r.value['wall'], 1)}, limit=4)
    ctx.coverage.update({'mc_runs': len(plans), 'worker_pids_observed': npids,
                         'worker_counts': sorted({w for _, w, _ in plans}),
                         'iteration_counts': sorted({st['iterations'] for st, _, _ in plans})})
    ctx.required.update({'rows-exactly-once': 8, 'sample-vectors-distinct': 8, 'samples-in-support': 20,
                         'continuous-input-values-distinct': 20, 'continuous-samples-not-discretised': 20, 'worker-sequences-differ': 1,
                         'marginal-distribution': 6, 'every-iteration-started': 8, 'normal-tails-present': 1})
    ctx.rule = ('Monte-Carlo runs of the real client over settings files mixing uniform / normal / triangular / lognormal / '
                'binomial inputs (GEOPHIRES fast base and HIP-RA-X), iteration counts {1,3,16,17,40,120,300(,1000)}, the pool '
                'forced to {1,2,4,16,32} workers by a ProcessPoolExecutor subclass that only presets max_workers, random '
                'sleeps of 0 / 4 / 20 ms injected before, inside and after the lock-guarded row append (two runs start with the stale lock file of a killed run next to the result file), failure rates 0 / 30 / '
                '90 % (samples driven out of range); distinct = (settings text, worker count, delay); a run is non-trivial '
                'when it has at least one iteration (every run); MC sampling is seeded from OS entropy by the code under '
                'test, so verdicts are structural or use alpha = 1e-6 statistical thresholds')
    ctx.assumptions += ['scipy.stats reference distributions; KS / chi-square at alpha = 1e-6 (false-alarm probability per '
                        'marginal below 1e-6)', 'the event log is written inside each forked worker by the repo hook observer '
                        '(per-pid files, no shared state)']


def replay(ctx, payload):
    case = payload.get('case') or {}
    st = case.get('settings')
    if not st:
        print('replay: no settings in payload')
        return 2
    out = mc.run_mc(st, workers=case.get('workers'), delay=case.get('delay', 0.0))
    check_c13(ctx.mon, st, out, {'replay': True})
    ctx.evaluations = st['iterations']
    for vv in ctx.mon.viols[:10]:
        print('replayed violation:', vv['mechanism'], str(vv['witness'])[:300])
    return 1 if ctx.mon.viols else 0
