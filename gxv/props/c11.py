"""C11 Economic results scale the way the definitions require (metamorphic relations over pairs of executions)."""
import math

from .. import gen
from ..pool import Pool
from ..verdict import close

COST_TOTALS = ['Total Capital Cost', 'Total O&M Cost', 'Well Drilling and Completion Capital Cost',
               'Reservoir Stimulation Capital Cost']
SCALED_IF_PRESENT = ['One-time Grants Etc', 'Other Incentives', 'One-time Flat License Fees Etc', 'Annual License Fees Etc',
                     'Tax Relief Per Year', 'Electricity Rate', 'Peaking Fuel Cost Rate', 'Total District Heating Network Cost',
                     'District Heating O&M Cost', 'Absorption Chiller Capital Cost', 'Absorption Chiller O&M Cost',
                     'Heat Pump Capital Cost', 'Exploration Capital Cost', 'Surface Plant Capital Cost',
                     'Field Gathering System Capital Cost', 'Wellfield O&M Cost', 'Surface Plant O&M Cost', 'Water Cost',
                     'Injection Well Drilling and Completion Capital Cost'] + COST_TOTALS
MAXV = {'Total Capital Cost': 1000, 'Total O&M Cost': 100, 'Well Drilling and Completion Capital Cost': 200,
        'Injection Well Drilling and Completion Capital Cost': 200, 'Reservoir Stimulation Capital Cost': 1000,
        'One-time Grants Etc': 1000, 'Other Incentives': 1000, 'One-time Flat License Fees Etc': 1000,
        'Annual License Fees Etc': 1000, 'Tax Relief Per Year': 100, 'Electricity Rate': 1.0, 'Peaking Fuel Cost Rate': 1.0,
        'Total District Heating Network Cost': 1000, 'District Heating O&M Cost': 100, 'Absorption Chiller Capital Cost': 100,
        'Absorption Chiller O&M Cost': 100, 'Heat Pump Capital Cost': 100, 'Exploration Capital Cost': 100,
        'Surface Plant Capital Cost': 1000, 'Field Gathering System Capital Cost': 100, 'Wellfield O&M Cost': 100,
        'Surface Plant O&M Cost': 100, 'Water Cost': 100}
PRICE_KEYS = ['Starting Electricity Sale Price', 'Ending Electricity Sale Price', 'Electricity Escalation Rate Per Year',
              'Starting Heat Sale Price', 'Ending Heat Sale Price', 'Heat Escalation Rate Per Year',
              'Starting Cooling Sale Price', 'Ending Cooling Sale Price', 'Cooling Escalation Rate Per Year']


def base_case(rng, cell, mode):
    """A configuration whose every cost stream is an input (production does not depend on any of them)."""
    em, eu, pt, rm = cell
    c = gen.synth_case(rng, cell, costs=False, incentives=True, prices=True, addons=False, overpressure=False, sdac=False)
    gen.cdel(c, 'Investment Tax Credit Rate')
    if em == 3:
        gen.cset(c, 'Investment Tax Credit Rate', rng.choice([0, 0.1]))
    gen.cset(c, 'Surface Piping Length', 0)
    gen.cset(c, 'Well Drilling and Completion Capital Cost', gen._round(rng.uniform(1, 8), 4))
    gen.cset(c, 'Reservoir Stimulation Capital Cost', gen._round(rng.uniform(0.5, 10), 4))
    gen.cset(c, 'Electricity Rate', gen._round(rng.uniform(0.02, 0.15), 3))
    if eu > 2:
        gen.cset(c, 'CHP Electrical Plant Cost Allocation Ratio', gen._round(rng.uniform(0.1, 0.9), 3))
    if mode == 'totals':
        gen.cset(c, 'Total Capital Cost', gen._round(rng.uniform(10, 150), 4))
        gen.cset(c, 'Total O&M Cost', gen._round(rng.uniform(0.3, 8), 4))
    else:
        gen.cset(c, 'Exploration Capital Cost', gen._round(rng.uniform(0.5, 10), 4))
        gen.cset(c, 'Surface Plant Capital Cost', gen._round(rng.uniform(5, 100), 4))
        gen.cset(c, 'Field Gathering System Capital Cost', gen._round(rng.uniform(0.5, 10), 4))
        gen.cset(c, 'Wellfield O&M Cost', gen._round(rng.uniform(0.1, 3), 4))
        gen.cset(c, 'Surface Plant O&M Cost', gen._round(rng.uniform(0.1, 3), 4))
        gen.cset(c, 'Water Cost', gen._round(rng.uniform(0.01, 1), 4))
        # a free item: a cost stream supplied as exactly 0 (0 x k = 0) is a supplied figure like any other
        for zname in ('Exploration Capital Cost', 'Reservoir Stimulation Capital Cost', 'Field Gathering System Capital Cost',
                      'Wellfield O&M Cost', 'Surface Plant O&M Cost', 'Water Cost'):
            if rng.random() < 0.2:
                gen.cset(c, zname, 0)
        if eu == 2 and pt == 5:
            # the chiller's capital share is only added when the plant cost is correlated; with a fixed plant cost only
            # its O&M remains a separate stream
            # (a third of the figures equal the parameter's declared default, 5 and 1, or half of it so that x 2 lands on it)
            gen.cset(c, 'Absorption Chiller Capital Cost', rng.choice([5, 2.5, gen._round(rng.uniform(0.5, 10), 4), gen._round(rng.uniform(0.5, 10), 4)]))
            gen.cset(c, 'Absorption Chiller O&M Cost', rng.choice([1, 0.5, gen._round(rng.uniform(0.05, 1), 4), gen._round(rng.uniform(0.05, 1), 4)]))
        if eu == 2 and pt == 7:
            gen.cdel(c, 'District Heating Road Length')
            gen.cdel(c, 'District Heating Network Piping Length')
            gen.cset(c, 'Total District Heating Network Cost', gen._round(rng.uniform(1, 30), 4))
            gen.cset(c, 'District Heating O&M Cost', gen._round(rng.uniform(0.05, 2), 4))
    if eu == 2 and pt == 7 and mode == 'totals':
        gen.cset(c, 'Peaking Fuel Cost Rate', gen._round(rng.uniform(0.01, 0.08), 3))
    return c


def scaled(case, k):
    c = [list(kv) for kv in case]
    for name in SCALED_IF_PRESENT:
        v = gen.cget(c, name)
        if v is not None:
            gen.cset(c, name, float(v) * k)
    return c


def k_range(case):
    hi = 50.0
    for name in SCALED_IF_PRESENT:
        v = gen.cget(case, name)
        if v is not None and float(v) > 0:
            hi = min(hi, MAXV[name] / float(v))
    return hi


def run(ctx):
    rng = ctx.rng
    cells = gen.grid_cells(res_models=(3, 4))
    rng.shuffle(cells)
    jobs = []
    n = ctx.pick(260, 3000)
    plan = [cells[i % len(cells)] for i in range(n)]
    # directed: direct-use heat with the industrial plant under every economic model (the only cells in which the
    # end-use-efficiency relation is stated), both fast reservoir models and both cost modes
    he_cells = [(e, 2, 9, r) for e in (1, 2, 3) for r in (3, 4)]
    plan += [he_cells[i % len(he_cells)] for i in range(ctx.pick(36, 240))]
    for i, cell in enumerate(plan):
        mode = 'totals' if (i + i // len(he_cells)) % 2 == 0 else 'components'
        base = base_case(rng, cell, mode)
        hi = k_range(base)
        k = math.exp(rng.uniform(math.log(0.05), math.log(max(0.06, min(20.0, hi * 0.999)))))
        k = gen._round(k, 5)
        texts = [gen.render(base), gen.render(scaled(base, k))]
        rel = ['base', 'cost-scale']
        # prices only
        m = gen._round(rng.uniform(1.2, 3.0), 4)
        pc = [list(kv) for kv in base]
        for pk in PRICE_KEYS:
            v = gen.cget(pc, pk)
            if v is None and pk.startswith(('Starting', 'Ending')):
                v = {'Electricity': 0.055, 'Heat': 0.025, 'Cooling': 0.025}[pk.split()[1]]
            if v is not None:
                gen.cset(pc, pk, min(100.0, float(v) * m))
        texts.append(gen.render(pc))
        rel.append('prices')
        # neutral elements: zero-rate ITC, zero grant, zero add-on (construction years 1 for the add-on writer)
        z = [list(kv) for kv in base]
        if cell[0] != 3:
            gen.cset(z, 'Investment Tax Credit Rate', 0)
        gen.cset(z, 'One-time Grants Etc', float(gen.cget(z, 'One-time Grants Etc', 0)) + 0.0)
        texts.append(gen.render(z))
        rel.append('zero-itc-grant')
        b1 = [list(kv) for kv in base]
        gen.cset(b1, 'Construction Years', 1)
        za = [list(kv) for kv in b1] + gen.addon_block(rng, n=rng.randint(1, 2), zero=True)
        texts += [gen.render(b1), gen.render(za)]
        rel += ['base-cy1', 'zero-addon']
        # end-use efficiency halved (direct-use heat, industrial plant)
        if cell[1] == 2 and cell[2] == 9:
            e = float(gen.cget(base, 'End-Use Efficiency Factor'))
            if e >= 0.2:
                h = [list(kv) for kv in base]
                gen.cset(h, 'End-Use Efficiency Factor', e / 2.0)
                texts.append(gen.render(h))
                rel.append('half-efficiency')
        jobs.append({'fn': 'gxv.jobs:multi_run', 'args': {'texts': texts}, 'timeout': 600,
                     'meta': {'cell': list(cell), 'mode': mode, 'k': k, 'm': m, 'rel': rel}})
    mon = ctx.mon
    with Pool(16) as pool:
        for r in pool.map(jobs, timeout=600):
            ctx.evaluations += len(r.job['args']['texts'])
            if r.status != 'ok':
                ctx.job_inconclusive(r.detail)
                continue
            meta = r.job['meta']
            outs = dict(zip(meta['rel'], r.value))
            texts = dict(zip(meta['rel'], r.job['args']['texts']))
            base = outs['base']
            if not base['ok']:
                ctx.reject(base['exc_type'], base['exc_msg'])
                continue
            case = {'meta': meta, 'texts': texts}
            before = len(mon.viols)
            judge(mon, meta, outs)
            for v in mon.viols[before:]:
                v['case'] = case
            ctx.distinct.add(gen.case_hash(texts['base']))
            ctx.sample({'cell': meta['cell'], 'mode': meta['mode'], 'k': meta['k'], 'price_factor': meta['m'],
                        'relations': meta['rel'], 'base_LCOE_LCOH_LCOC': [base.get('LCOE'), base.get('LCOH'), base.get('LCOC')]},
                       limit=4)
    ctx.required.update({'cost-scaling': 200, 'prices-leave-levelized-cost': 300, 'prices-move-npv': 80, 'zero-itc-grant': 150,
                         'zero-addon': 150, 'half-efficiency': 24})
    ctx.rule = ('bases from the configuration grid (three economic models x all end-uses x plant types) in which every cost '
                'stream is an input (mode "totals": total capital and O&M, well and stimulation cost for redrilling, '
                'electricity / peaking-fuel rates, grants, fees, incentives; mode "components": every component cost fixed); '
                'per base: costs x k (k log-uniform so that every scaled input stays in range), sale prices x m only, a '
                'zero-rate ITC and a zero grant, a zero-cost zero-gain add-on, and (direct-use heat) the end-use efficiency '
                'halved; distinct by content hash of the base input; every base is non-trivial (k != 1, m != 1)')
    ctx.assumptions += ['"production held fixed" is verified per pair: the yearly energy series of the two runs must be '
                        'identical, otherwise the pair is inconclusive']


def _lev(o):
    return {k: o.get(k) for k in ('LCOE', 'LCOH', 'LCOC')}


def _same_energy(a, b):
    for k in ('NetkWhProduced', 'HeatkWhProduced', 'cooling_kWh_Produced'):
        x, y = a.get(k), b.get(k)
        if (x is None) != (y is None):
            return False
        if x is not None and (len(x) != len(y) or any(not close(p, q, 1e-12) for p, q in zip(x, y))):
            return False
    return True


def judge(mon, meta, outs):
    base = outs['base']
    cell = meta['cell']
    tag = {'cell': cell, 'mode': meta['mode']}
    # ---- costs x k
    o = outs.get('cost-scale')
    if o and o['ok']:
        if not _same_energy(base, o):
            mon.inconclusive('cost-scaling', 'production-not-fixed')
        else:
            k = meta['k']
            for name, v0 in _lev(base).items():
                v1 = o.get(name)
                if v0 is None or v1 is None or not math.isfinite(v0) or not math.isfinite(v1) or v0 == 0:
                    continue
                mon.check('cost-scaling', close(v1, k * v0, 1e-9, 1e-12), mechanism=f'C11/levelized-cost-not-homogeneous-in-costs:{name}',
                          name=name, k=k, base=v0, scaled=v1, ratio=v1 / v0, **tag)
    elif o:
        mon.note('cost-scale-run-rejected:' + str(o['exc_type']))
    # ---- prices only
    o = outs.get('prices')
    if o and o['ok']:
        for name, v0 in _lev(base).items():
            v1 = o.get(name)
            if v0 is None or v1 is None or not math.isfinite(v0):
                continue
            mon.check('prices-leave-levelized-cost', close(v1, v0, 1e-12, 0.0) or v1 == v0,
                      mechanism=f'C11/levelized-cost-depends-on-sale-price:{name}', name=name, base=v0, priced=v1, **tag)
        eu, pt = cell[1], cell[2]
        sold = []
        if eu != 2:
            sold.append(base.get('NetkWhProduced'))
        if eu != 1 and not (eu == 2 and pt == 5):
            sold.append(base.get('HeatkWhProduced'))
        if eu == 2 and pt == 5:
            sold.append(base.get('cooling_kWh_Produced'))
        if all(sv is not None and all(x >= 0 for x in sv) and sum(sv) > 0 for sv in sold) and sold:
            n0, n1 = base.get('ProjectNPV'), o.get('ProjectNPV')
            if n0 is not None and n1 is not None and math.isfinite(n0) and math.isfinite(n1):
                mon.check('prices-move-npv', n1 > n0, mechanism='C11/npv-does-not-rise-with-sale-prices', base=n0, priced=n1,
                          factor=meta['m'], **tag)
        else:
            mon.note('prices-npv-skipped-energy-sold-not-positive')
    # ---- neutral elements
    o = outs.get('zero-itc-grant')
    if o and o['ok']:
        bad = [k for k in ('LCOE', 'LCOH', 'LCOC', 'CCap', 'Coam', 'ProjectNPV', 'ProjectIRR')
               if not _eq(base.get(k), o.get(k))]
        mon.check('zero-itc-grant', not bad, mechanism='C11/zero-rate-credit-or-zero-grant-changes-results', changed=bad,
                  base={k: base.get(k) for k in bad}, variant={k: o.get(k) for k in bad}, **tag)
    b1, za = outs.get('base-cy1'), outs.get('zero-addon')
    if b1 and za and b1['ok'] and za['ok']:
        bad = [k for k in ('LCOE', 'LCOH', 'LCOC', 'CCap', 'Coam', 'ProjectNPV', 'ProjectIRR') if not _eq(b1.get(k), za.get(k))]
        mon.check('zero-addon', not bad, mechanism='C11/zero-cost-zero-gain-add-on-changes-results', changed=bad,
                  base={k: b1.get(k) for k in bad}, variant={k: za.get(k) for k in bad}, **tag)
        ad = za.get('addon') or {}
        if ad.get('ProjectNPV') is not None and b1.get('ProjectNPV') is not None and \
                not close(ad['ProjectNPV'], b1['ProjectNPV'], 1e-9, 1e-9):
            # observation only (not part of the statement): the add-on module's own project NPV leaves out carbon and
            # cooling revenue, so it differs from the base NPV even for a neutral add-on
            mon.note('observation:zero-add-on-project-npv-differs-from-base-npv')
    elif b1 and za and b1['ok'] and not za['ok']:
        # the base is accepted, so the same input plus a neutral add-on must be accepted too
        mon.bad('zero-addon', mechanism='C11/zero-cost-zero-gain-add-on-aborts-run', error=f"{za['exc_type']}: {za['exc_msg']}", **tag)
    o = outs.get('half-efficiency')
    if o and o['ok']:
        v0, v1 = base.get('LCOH'), o.get('LCOH')
        if v0 and v1 and math.isfinite(v0) and math.isfinite(v1):
            mon.check('half-efficiency', close(v1, 2.0 * v0, 1e-9), mechanism='C11/halved-efficiency-does-not-double-LCOH',
                      base=v0, halved=v1, ratio=v1 / v0, **tag)


def _eq(a, b):
    if a is None or b is None:
        return a is None and b is None
    if isinstance(a, float) and isinstance(b, float) and a != a and b != b:
        return True
    return close(a, b, 1e-12, 1e-15)


def replay(ctx, payload):
    from .. import jobs
    case = payload.get('case') or {}
    meta, texts = case.get('meta'), case.get('texts')
    if not meta:
        print('replay: no case')
        return 2
    outs = dict(zip(meta['rel'], jobs.multi_run([texts[r] for r in meta['rel']])))
    judge(ctx.mon, meta, outs)
    ctx.evaluations = len(meta['rel'])
    for vv in ctx.mon.viols[:10]:
        print('replayed violation:', vv['mechanism'], str(vv['witness'])[:300])
    return 1 if ctx.mon.viols else 0
