"""C15 Pumping power and modelled pressures stay physical."""
from .. import workload
from .common import grid_check


def run(ctx):
    extra = workload.synth_jobs(ctx, ['c15'], ctx.pick(250, 3000), res_models=(3, 4), overpressure=True, addons=False,
                                costs=False, incentives=False, prices=False)
    grid_check(ctx, 'c15', nontrivial_note='c15-nontrivial', also=('c02',), quick_fast=600, quick_slow=32,
               extra_jobs=extra,
               required={'pumping-nonnegative': 600, 'pumping-total-is-sum': 200, 'production-pressure': 60,
                         'production-pressure-rate': 30, 'injection-pressure': 30,
                         'contract:friction-monotone-in-diameter': 600, 'contract:production-pressure': 30,
                         'contract:injection-pressure': 30},
               rule='grid walk (see C01) under both hydraulic models (impedance / productivity-injectivity index), pumped ORC '
                    'and self-flowing flash plants, plus an overpressure family (100..250 %, depletion 0.2..20 %/yr, '
                    'injection-reservoir inflation, injection reservoir depth supplied); snapshot oracles on every pumping '
                    'and pressure series, icontract postconditions on every real call of ReservoirPressurePredictor and '
                    'InjectionReservoirPressurePredictor, and a shadow-call postcondition that re-invokes the real '
                    'WellPressureDrop with the diameter enlarged x1.1/x1.5/x2; non-trivial when pumping power is positive')


def replay(ctx, payload):
    return workload.replay_run_oracles(ctx, payload)
