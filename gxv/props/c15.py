"""C15 Pumping power and modelled pressures stay physical."""
from .. import workload
from .common import grid_check


def diameter_chain_job(texts, which, values, tag):
    """Runs one input with only a well diameter enlarged step by step; the frictional pressure loss of that well (the series the
    run itself reports) must not increase from one step to the next."""
    from .. import jobs
    from ..verdict import Mon
    import numpy as np
    mon = Mon('C15')
    outs = jobs.multi_run(texts)
    key = 'DPProdWell' if which == 'Production Well Diameter' else 'DPInjWell'
    prev = None
    for v, o in zip(values, outs):
        ser = o.get(key) if o.get('ok') else None
        if not ser:
            prev = None
            continue
        ser = np.asarray(ser, dtype=float)
        if prev is not None and len(prev[1]) == len(ser):
            worst = float(np.max(ser - prev[1]))
            mon.check('run:friction-monotone-in-diameter', worst <= 1e-9 * max(1.0, float(np.max(np.abs(prev[1])))),
                      mechanism='C15/run-pressure-loss-increases-with-well-diameter:' + key, smaller=prev[0], larger=v,
                      increase_kPa=worst, tag=tag)
        prev = (v, ser)
    return {'mon': mon.dump(), 'n': len(texts)}


def run(ctx):
    from .. import gen
    from ..pool import Pool
    # run-level diameter chains (both wells, both hydraulic models, also under district heating where the wellbore model runs
    # twice per simulation): the whole admitted range 1..30 inch
    cjobs = []
    values = [3, 6, 9, 14, 18, 21, 24, 30]
    for i in range(ctx.pick(16, 120)):
        dh = i % 3 == 0
        cell = (ctx.rng.choice([1, 2, 3]), 2, 7, 4) if dh else (ctx.rng.choice([1, 2, 3]), ctx.rng.choice([1, 2, 31]), 1, ctx.rng.choice([3, 4]))
        if not dh and cell[1] == 2:
            cell = (cell[0], 2, 9, cell[3])
        base = gen.synth_case(ctx.rng, cell, costs=False, incentives=False, prices=False, addons=False, overpressure=False, sdac=False,
                              impedance=(i % 2 == 0))
        if dh:
            gen.cset(base, 'Plant Lifetime', 8)
        which = ('Production Well Diameter', 'Injection Well Diameter')[(i // 2) % 2]
        if i % 2 != 0:
            # productivity / injectivity index model: the production-side figure the run reports is the pump's pressure
            # difference (pump depth and suction pressure move with the diameter too), not a frictional loss; the injection-side
            # figure differs between two diameters by the friction term only
            which = 'Injection Well Diameter'
        texts = []
        for v in values:
            c = [list(kv) for kv in base]
            gen.cset(c, which, v)
            texts.append(gen.render(c))
        cjobs.append({'fn': 'gxv.props.c15:diameter_chain_job', 'timeout': 900,
                      'args': {'texts': texts, 'which': which, 'values': values, 'tag': {'cell': list(cell), 'impedance': i % 2 == 0}}})
    with Pool(16) as pool:
        for r in pool.map(cjobs, timeout=900):
            if r.status != 'ok':
                ctx.job_inconclusive(r.detail)
                continue
            ctx.evaluations += r.value['n']
            ctx.mon.merge(r.value['mon'], case={'job_fn': r.job['fn'], 'args': r.job['args']})
    extra = workload.synth_jobs(ctx, ['c15'], ctx.pick(250, 3000), res_models=(3, 4), overpressure=True, addons=False,
                                costs=False, incentives=False, prices=False)
    grid_check(ctx, 'c15', nontrivial_note='c15-nontrivial', also=('c02',), quick_fast=600, quick_slow=32,
               extra_jobs=extra,
               required={'pumping-nonnegative': 600, 'pumping-total-is-sum': 200, 'production-pressure': 60,
                         'production-pressure-rate': 30, 'injection-pressure': 30,
                         'contract:friction-monotone-in-diameter': 600, 'run:friction-monotone-in-diameter': 60, 'contract:production-pressure': 30,
                         'contract:injection-pressure': 30},
               rule='grid walk (see C01) under both hydraulic models (impedance / productivity-injectivity index), pumped ORC '
                    'and self-flowing flash plants, plus an overpressure family (100..250 %, depletion 0.2..20 %/yr, '
                    'injection-reservoir inflation, injection reservoir depth supplied); snapshot oracles on every pumping '
                    'and pressure series, icontract postconditions on every real call of ReservoirPressurePredictor and '
                    'InjectionReservoirPressurePredictor, and a shadow-call postcondition that re-invokes the real '
                    'WellPressureDrop with the diameter enlarged x1.1/x1.5/x2; non-trivial when pumping power is positive')


def replay(ctx, payload):
    case = payload.get('case') or {}
    if case.get('job_fn') == 'gxv.props.c15:diameter_chain_job':
        v = diameter_chain_job(**case['args'])
        ctx.mon.merge(v['mon'])
        ctx.evaluations = v['n']
        for vv in ctx.mon.viols[:10]:
            print('replayed violation:', vv['mechanism'], str(vv['witness'])[:300])
        return 1 if ctx.mon.viols else 0
    return workload.replay_run_oracles(ctx, payload)
