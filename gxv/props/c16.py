"""C16 Price and incentive schedules have the documented shape."""
import itertools

from .. import workload
from ..pool import Pool
from .common import grid_check

PRICE_SETTINGS = [
    # (start, end, rate, ptc kind)
    (0.055, 0.055, 0.0, 'none'),
    (0.05, 0.15, 0.012, 'none'),
    (0.05, 0.15, 0.012, 'ptc'),
    (0.20, 0.10, 0.01, 'none'),        # start > end: the cap wins
    (0.20, 0.10, 0.0, 'ptc'),
    (0.0, 100.0, 0.5, 'none'),
    (0.01, 0.011, 1e-4, 'ptc'),
    (0.09, 0.09, 3.0, 'none'),
]
PTC_SETTINGS = [(0.04, False, 0.02), (0.04, True, 0.02), (0.0, True, 0.05), (0.003412, True, 0.0), (10.0, True, 1.0),
                (0.02, False, 0.0)]


def enum_job(lifetimes, price_t0_stride=1, ptc_dur_stride=1, offset=0):
    """Drive the real builders (wrapped by the icontract postconditions) over the integer domain."""
    from .. import contracts as C
    C.attach()
    C.reset()
    import geophires_x.Economics as Ec
    calls = 0
    for L in lifetimes:
        for t0 in range((offset + L) % price_t0_stride, 101, price_t0_stride):
            for start, end, rate, kind in PRICE_SETTINGS:
                ptc = [0.0] * L if kind == 'none' else Ec.BuildPTCModel(L, min(L, 1 + (t0 % max(1, L))), 0.03, bool(t0 % 2), 0.02)
                Ec.BuildPricingModel(L, start, end, t0, rate, ptc)
                calls += 1
        for dur in range((offset + L) % ptc_dur_stride, L + 1, ptc_dur_stride):
            for price, adj, infl in PTC_SETTINGS:
                Ec.BuildPTCModel(L, dur, price, adj, infl)
                calls += 1
    d = C.dump()
    return {'calls': calls, 'contracts': d['mons'], 'counts': d['counts'], 'engine': d['engine']}


def run(ctx):
    # (a) exhaustive / stratified enumeration of the integer domain through the real builders
    stride = ctx.pick(4, 1)
    chunks = [list(range(a, min(101, a + 5))) for a in range(1, 101, 5)]
    jobs = [{'fn': 'gxv.props.c16:enum_job',
             'args': {'lifetimes': ch, 'price_t0_stride': stride, 'ptc_dur_stride': ctx.pick(2, 1), 'offset': ctx.seed},
             'timeout': 600} for ch in chunks]
    calls = 0
    with Pool(16) as pool:
        for r in pool.map(jobs, timeout=600):
            if r.status != 'ok':
                ctx.job_inconclusive(r.detail)
                continue
            v = r.value
            calls += v['calls']
            for prop, dump in v['contracts'].items():
                case = {'job_fn': r.job['fn'], 'args': r.job['args']}
                if prop == 'C16':
                    ctx.mon.merge(dump, case=case)
                else:
                    ctx.cross_mon(prop).merge(dump)
            ctx.coverage['contract_engine'] = v['engine']
    ctx.coverage['direct_builder_calls'] = calls
    ctx.coverage['direct_enumeration'] = {
        'lifetimes': '1..100', 'escalation_start_years': f'0..100 step {stride}' + (' (offset varies with seed and lifetime)' if stride > 1 else ''),
        'ptc_durations': '0..lifetime' + ('' if not ctx.quick else ' step 2'), 'price_settings': len(PRICE_SETTINGS),
        'ptc_settings': len(PTC_SETTINGS)}
    ctx.exhaustive = not ctx.quick
    for i in range(3):
        ctx.sample({'direct_call': 'BuildPricingModel', 'lifetime': 7 + i, 'setting': PRICE_SETTINGS[3 + i]})
    # every direct call is a distinct (lifetime, start year/duration, setting) triple by construction
    ctx.evaluations += calls
    ctx.distinct.update(f'direct:{i}' for i in range(calls))
    # (b) the same schedules and the adjustments as they appear inside full runs
    grid_check(ctx, 'c16', also=('c03', 'c04'), quick_fast=700, quick_slow=24, thorough_fast=8000, thorough_slow=300,
               required={'contract:price-schedule': 15000, 'contract:ptc-schedule': 8000, 'run-price': 1500,
                         'capital-adjustments': 300, 'opex-adjustments': 300, 'itc': 100, 'construction-years-zero': 1500},
               rule='(a) the real BuildPricingModel / BuildPTCModel are called directly over lifetime 1..100 x escalation start '
                    '0..100 (x 8 start/end/rate/PTC settings incl. start > end) and lifetime 1..100 x duration 0..lifetime '
                    '(x 6 credit/inflation settings): thorough enumerates the whole integer domain, quick a seed-shifted '
                    'stride of it; icontract postconditions compare every result with the reference schedule; '
                    '(b) grid walk (see C01) with price escalation, PTC, ITC, grants, incentives, fees and tax relief '
                    'blocks: price series incl. construction-year zeros, and the exact effect of each adjustment on '
                    'capital cost and annual O&M, are checked on every snapshot; distinct = distinct direct-call triples + '
                    'distinct input content hashes')
    ctx.exhaustive = not ctx.quick


def replay(ctx, payload):
    case = payload.get('case') or {}
    if case.get('job_fn') == 'gxv.props.c16:enum_job':
        v = enum_job(**case['args'])
        ctx.evaluations = v['calls']
        ctx.mon.merge(v['contracts'].get('C16'), case=case)
        for vv in ctx.mon.viols[:5]:
            print('replayed violation:', vv['mechanism'], str(vv['witness'])[:300])
        return 1 if ctx.mon.viols else 0
    return workload.replay_run_oracles(ctx, payload)
