"""C05 Resource temperature and thermal drawdown obey the model definition."""
from .. import workload
from .common import grid_check


def run(ctx):
    extra = workload.synth_jobs(ctx, ['c05', 'c02'], ctx.pick(700, 8000), res_models=(3, 4), resource='hostile',
                                costs=False, incentives=False, prices=False, addons=False, overpressure=False)
    extra += workload.synth_jobs(ctx, ['c05', 'c02'], ctx.pick(48, 500), res_models=(1, 2), resource='hostile',
                                 costs=False, incentives=False, prices=False, addons=False, overpressure=False)
    # directed: redrilling actually reached (small maximum drawdown, Ramey wellbore model on) in every reservoir model and, in
    # particular, under district heating, where Model.Calculate runs the reservoir / wellbore / plant chain twice
    from .. import gen
    for i in range(ctx.pick(24, 200)):
        rm = (1, 2, 3, 4)[i % 4]
        dh = i % 2 == 0
        cell = (ctx.rng.choice([1, 2, 3]), 2, 7 if dh else 9, rm)
        case = gen.synth_case(ctx.rng, cell, costs=False, incentives=False, prices=False, addons=False, overpressure=False,
                              sdac=False, impedance=True, nseg=ctx.rng.choice([1, 2]))
        gen.cset(case, 'Maximum Drawdown', ctx.rng.choice([0.02, 0.03, 0.05, 0.08]))
        gen.cset(case, 'Ramey Production Wellbore Model', 1)
        gen.cset(case, 'Plant Lifetime', ctx.rng.choice([12, 15, 20]))
        gen.cset(case, 'Time steps per year', ctx.rng.choice([2, 3, 4]))
        gen.cset(case, 'Injection Temperature', gen._round(ctx.rng.uniform(35, 60), 2))
        if rm == 4:
            gen.cset(case, 'Drawdown Parameter', gen._round(ctx.rng.uniform(0.005, 0.02), 4))
        if rm == 3:
            gen.cset(case, 'Drawdown Parameter', gen._round(gen._logu(ctx.rng, 3e-5, 3e-4), 6))
        extra.append({'fn': 'gxv.jobs:run_oracles', 'args': {'text': gen.render(case), 'oracles': ['c05', 'c02'],
                                                             'tag': {'cell': list(cell), 'directed': 'redrilling' + ('-district-heating' if dh else '')}},
                      'timeout': 600})
    # directed: the drawdown parameter of the analytical models over its whole documented range (0..0.2 for the single
    # fracture, where the shipped examples and the grid stay below 3e-4 and the built-in default is 0.005; 0..0.2 1/year for
    # the percentage model), heat end-uses so that a fast-cooling reservoir is still an accepted input
    for i in range(ctx.pick(48, 400)):
        rm = (3, 3, 4)[i % 3]
        cell = (ctx.rng.choice([1, 2, 3]), 2, 9, rm)
        case = gen.synth_case(ctx.rng, cell, costs=False, incentives=False, prices=False, addons=False, overpressure=False,
                              sdac=False, nseg=ctx.rng.choice([1, 1, 2, 3]))
        dp = [2e-4, 0.2, 0.005][i % 3] if i < 6 else gen._round(gen._logu(ctx.rng, 2e-4, 0.2), 6)
        gen.cset(case, 'Drawdown Parameter', dp)
        gen.cset(case, 'Maximum Drawdown', 1)
        extra.append({'fn': 'gxv.jobs:run_oracles', 'args': {'text': gen.render(case), 'oracles': ['c05', 'c02'],
                                                             'tag': {'cell': list(cell), 'directed': 'drawdown-parameter-range'}},
                      'timeout': 600})
    grid_check(ctx, 'c05', nontrivial_note='c05-nontrivial', also=('c02',), quick_fast=300, quick_slow=16,
               thorough_fast=3000, thorough_slow=200, extra_jobs=extra,
               required={'bottom-hole-temperature': 400, 'effective-depth': 300, 'history-starts-at-bht': 300,
                         'drawdown-limit': 300, 'never-above-bht': 200, 'non-increasing-between-redrillings': 200,
                         'redrilling-restarts-profile': 10},
               rule='reservoir models 1-4 with 1..4 gradient segments; a hostile resource family draws gradients and '
                    'thicknesses over their whole declared ranges including gradient <= 1 degC/km and thickness == 100 km, '
                    'depth 0.1..15 km and Tmax 50..600 degC (cap active in about a third of cases), maximum drawdown in '
                    '(0,1]; the reference integrates the gradients from the numbers the user wrote (gxv.ref.energy.bht); '
                    'distinct by input content hash, non-trivial when the reservoir temperature varies in time')
    n = ctx.mon.notes
    ctx.coverage['tmax_cap_active_runs'] = n.get('c05-tmax-cap-active', 0)
    ctx.coverage['multisegment_runs'] = n.get('c05-multisegment', 0)
    ctx.coverage['redrilling_runs'] = n.get('c05-redrilling', 0)


def replay(ctx, payload):
    return workload.replay_run_oracles(ctx, payload)
