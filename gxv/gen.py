"""Configuration generator: families of GEOPHIRES-X inputs and in-range perturbations.

A case is an ordered list of [name, value] pairs (values are strings/numbers) plus optional raw trailing lines; it is
rendered to the simulator's input-file syntax.  All randomness comes from the random.Random passed in, so a case is
reproducible from (seed, index).
"""
import hashlib
import math
import os
import re

from . import env

END_USES = [1, 2, 31, 32, 41, 42, 51, 52]
POWER_TYPES = [1, 2, 3, 4]
HEAT_TYPES = [9, 5, 6, 7]


def fmt(v):
    if isinstance(v, bool):
        return 'True' if v else 'False'
    if isinstance(v, int):
        return str(v)
    if isinstance(v, float):
        if v == int(v) and abs(v) < 1e15:
            return repr(float(v))
        return repr(v)
    return str(v)


def render(case, raw=()):
    lines = [f'{k}, {fmt(v)}' for k, v in case]
    lines.extend(raw)
    return '\n'.join(lines) + '\n'


def case_hash(text):
    return hashlib.sha1(text.encode('utf-8')).hexdigest()[:16]


def parse_example(path):
    """Parse a shipped example into an ordered [name, value] list (comments dropped, duplicate keys kept in order)."""
    out = []
    raw = []
    with open(path, encoding='utf-8') as f:
        for line in f:
            s = line.strip()
            if not s or s.startswith(('#', '--', '*')):
                continue
            if s.startswith('Units:'):
                raw.append(s.split('--')[0].strip())
                continue
            parts = s.split(',')
            if len(parts) < 2:
                continue
            name = parts[0].strip()
            val = parts[1].strip()
            if '--' in val:
                val = val.split('--')[0].strip()
            out.append([name, val])
    return out, raw


def example_path(name):
    return os.path.join(env.REPO, 'tests', 'examples', name + '.txt')


def cset(case, name, value):
    for kv in case:
        if kv[0] == name:
            kv[1] = value
            return case
    case.append([name, value])
    return case


def cget(case, name, default=None):
    v = default
    for k, val in case:
        if k == name:
            v = val
    return v


def cdel(case, name):
    case[:] = [kv for kv in case if kv[0] != name]
    return case


# ---------------------------------------------------------------------------------------------------------------------
# drawing helpers

def _logu(rng, lo, hi):
    return math.exp(rng.uniform(math.log(lo), math.log(hi)))


def _round(x, sig=6):
    if x == 0:
        return 0.0
    return float(f'{x:.{sig}g}')


def draw_small_int(rng, lo, hi, heavy=()):
    """Integer in [lo, hi] with weight on lo, lo+1, hi and the 'heavy' values."""
    r = rng.random()
    if r < 0.15:
        return lo
    if r < 0.25:
        return min(hi, lo + 1)
    if r < 0.33:
        return hi
    if heavy and r < 0.45:
        return rng.choice(list(heavy))
    return rng.randint(lo, hi)


# ---------------------------------------------------------------------------------------------------------------------
# synthetic bases

def reservoir_block(rng, model):
    c = []
    c.append(['Reservoir Model', model])
    if model == 1:
        c += [['Reservoir Volume Option', 3], ['Reservoir Volume', _round(_logu(rng, 2e8, 4e9))],
              ['Number of Fractures', rng.randint(5, 40)], ['Fracture Shape', rng.choice([1, 2, 3, 4])],
              ['Fracture Height', _round(rng.uniform(300, 1200))]]
        if c[-2][1] == 4:
            c.append(['Fracture Width', _round(rng.uniform(300, 1200))])
    elif model == 2:
        c += [['Reservoir Volume Option', 2], ['Fracture Shape', 2], ['Fracture Height', _round(rng.uniform(200, 600))],
              ['Fracture Separation', _round(rng.uniform(30, 120))], ['Reservoir Volume', _round(_logu(rng, 5e7, 1e9))],
              ['Reservoir Porosity', _round(rng.uniform(0.02, 0.2))]]
    elif model == 3:
        c += [['Drawdown Parameter', _round(_logu(rng, 5e-6, 2e-4))], ['Reservoir Volume Option', 1],
              ['Fracture Shape', 1], ['Fracture Area', _round(_logu(rng, 5e4, 1e6))],
              ['Number of Fractures', rng.randint(2, 30)], ['Fracture Separation', _round(rng.uniform(30, 150))]]
    elif model == 4:
        c += [['Drawdown Parameter', _round(_logu(rng, 5e-4, 0.03))], ['Reservoir Volume Option', 4],
              ['Reservoir Volume', _round(_logu(rng, 1e8, 5e9))]]
    elif model == 0:
        c += [['Reservoir Volume Option', 4], ['Reservoir Volume', _round(_logu(rng, 1e8, 5e9))],
              ['Cylindrical Reservoir Input Depth', _round(rng.uniform(1.0, 4.0))],
              ['Cylindrical Reservoir Output Depth', _round(rng.uniform(1.0, 4.0))],
              ['Cylindrical Reservoir Length', _round(rng.uniform(1.0, 6.0))],
              ['Cylindrical Reservoir Radius of Effect', _round(rng.uniform(20, 80))]]
    elif model == 5:
        c += [['Reservoir Output File Name', 'Examples/ReservoirOutput.txt'], ['Reservoir Volume Option', 4],
              ['Reservoir Volume', 1e9]]
    return c


def resource_block(rng, nseg=None, hostile=False):
    c = []
    depth = _round(rng.uniform(1.2, 5.5), 4) if not hostile else _round(rng.choice([0.1, 0.5, 15, rng.uniform(0.1, 15)]), 4)
    c.append(['Reservoir Depth', depth])
    if nseg is None:
        nseg = 1 if rng.random() < 0.6 else rng.randint(2, 4)
    c.append(['Number of Segments', nseg])
    for k in range(1, nseg + 1):
        # (one value in twelve is the parameter's declared default - 50 degC/km, 2 km - a figure like any other)
        c.append([f'Gradient {k}', 50 if rng.random() < 0.08 else _round(rng.uniform(25, 85), 4)])
        if k < nseg:
            c.append([f'Thickness {k}', 2 if rng.random() < 0.08 else _round(rng.uniform(0.3, 2.0), 3)])
    r = rng.random()
    tmax = 400 if r < 0.5 else (_round(rng.uniform(120, 260), 4) if r < 0.85 else _round(rng.uniform(260, 600), 4))
    c.append(['Maximum Temperature', tmax])
    c.append(['Surface Temperature', _round(rng.uniform(0, 30), 3)])
    return c


def resource_block_hostile(rng):
    """C05/C18: 1-4 segments with gradients and thicknesses across their whole declared ranges, including the regions
    where the magnitude heuristics of Reservoir.read_parameters bite (gradient <= 1 degC/km, thickness == 100 km),
    depth 0.1..15 km and Tmax 50..600 so that the cap is active in roughly a third of the cases."""
    c = []
    r = rng.random()
    depth = _round(rng.uniform(0.6, 6.0), 4) if r < 0.7 else _round(rng.choice([0.1, 15, rng.uniform(0.1, 15)]), 4)
    c.append(['Reservoir Depth', depth])
    nseg = rng.choice([1, 1, 2, 3, 4])
    c.append(['Number of Segments', nseg])
    for k in range(1, nseg + 1):
        r = rng.random()
        if r < 0.06:
            g = rng.choice([0.0, 0.5, 1.0, 1.5, 2.0])
        elif r < 0.12:
            g = _round(rng.uniform(0.0, 5.0), 3)
        elif r < 0.9:
            g = _round(rng.uniform(15, 110), 4)
        else:
            g = _round(rng.uniform(110, 500), 4)
        c.append([f'Gradient {k}', g])
        if k < nseg:
            r = rng.random()
            if r < 0.05:
                h = 100.0
            elif r < 0.1:
                h = _round(rng.choice([0.01, 99.9, rng.uniform(10, 100)]), 4)
            elif r < 0.2:
                h = 2                      # the declared default of 'Thickness 1'
            else:
                h = _round(rng.uniform(0.05, 3.0), 3)
            c.append([f'Thickness {k}', h])
    r = rng.random()
    tmax = 400 if r < 0.4 else (_round(rng.uniform(50, 250), 4) if r < 0.85 else _round(rng.uniform(250, 600), 4))
    c.append(['Maximum Temperature', tmax])
    c.append(['Surface Temperature', _round(rng.uniform(-5, 35), 3)])
    return c


def wells_block(rng, impedance=None, laterals=None):
    c = [['Number of Production Wells', draw_small_int(rng, 1, 6)],
         ['Number of Injection Wells', draw_small_int(rng, 1, 6)],
         ['Production Well Diameter', _round(rng.uniform(5, 12), 4)],
         ['Injection Well Diameter', _round(rng.uniform(5, 12), 4)],
         ['Ramey Production Wellbore Model', rng.choice([0, 1])],
         ['Production Wellbore Temperature Drop', _round(rng.uniform(0, 6), 3)],
         ['Injection Wellbore Temperature Gain', _round(rng.uniform(0, 4), 3)],
         ['Production Flow Rate per Well', _round(rng.uniform(20, 110), 4)],
         ['Water Loss Fraction', rng.choice([0.0, _round(rng.uniform(0, 0.1), 3)])],
         ['Injection Temperature', _round(rng.uniform(35, 85), 3)],
         ['Maximum Drawdown', 1 if rng.random() < 0.5 else _round(rng.uniform(0.02, 0.6), 3)]]
    if impedance is None:
        impedance = rng.random() < 0.35
    if impedance:
        c.append(['Reservoir Impedance', _round(_logu(rng, 0.01, 0.4), 3)])
    else:
        c += [['Injectivity Index', _round(_logu(rng, 2, 30), 3)], ['Productivity Index', _round(_logu(rng, 2, 30), 3)]]
    c += [['Reservoir Heat Capacity', _round(rng.uniform(800, 1200), 4)],
          ['Reservoir Density', _round(rng.uniform(2400, 3100), 4)],
          ['Reservoir Thermal Conductivity', _round(rng.uniform(2, 4), 3)]]
    if laterals is None:
        laterals = rng.random() < 0.15
    if laterals:
        # multilateral wells on the standard (non closed-loop) wellbore model: lateral drilling cost enters the wellfield cost
        c += [['Well Geometry Configuration', rng.choice([1, 2, 3, 4, 4])],
              ['Has Nonvertical Section', 'True'],
              ['Multilaterals Cased', rng.choice(['True', 'False'])],
              ['Number of Multilateral Sections', draw_small_int(rng, 1, 5)],
              ['Nonvertical Length per Multilateral Section', _round(rng.uniform(300, 2500), 2)]]
    return c


HOURLY_TEMPERATURE_FILE = os.path.join(os.path.dirname(os.path.abspath(__file__)), 'data', 'hourly_temperature.csv')


def plant_block(rng, enduse, ptype, dh_option=None):
    c = [['End-Use Option', enduse], ['Power Plant Type', ptype],
         ['Circulation Pump Efficiency', _round(rng.uniform(0.5, 0.95), 3)],
         ['Utilization Factor', rng.choice([0.9, 1.0, 0.1, _round(rng.uniform(0.3, 1.0), 3)])],
         ['Ambient Temperature', _round(rng.uniform(2, 28), 3)],
         ['End-Use Efficiency Factor', _round(rng.uniform(0.5, 1.0), 3)]]
    if enduse in (41, 42):
        c.append(['CHP Bottoming Entering Temperature', _round(rng.uniform(95, 150), 4)])
    if enduse in (51, 52):
        c.append(['CHP Fraction', _round(rng.uniform(0.1, 0.9), 3)])
    if enduse == 2 and ptype == 6:
        c.append(['Heat Pump COP', _round(rng.uniform(1.8, 6.0), 3)])
    if enduse == 2 and ptype == 5:
        c.append(['Absorption Chiller COP', _round(rng.uniform(0.4, 1.3), 3)])
    if enduse == 2 and ptype == 7:
        if dh_option is None:
            dh_option = 2 if rng.random() < 0.35 else 1
        if dh_option == 2:
            # demand derived from an hourly temperature file, the number of housing units and the U.S. census division
            c += [['District Heating Demand Option', 2],
                  ['Temperature File Name', HOURLY_TEMPERATURE_FILE],
                  ['Temperature Data Column Number', 2],
                  ['Number of Housing Units', draw_small_int(rng, 4000, 40000)],
                  ['US Census Division', rng.randint(1, 9)],
                  ['Constant Anchor Demand', _round(rng.uniform(0, 5), 3)]]
        else:
            c += [['District Heating Demand Option', 1],
                  ['District Heating Demand File Name', 'Examples/cornell_heat_demand.csv'],
                  ['District Heating Demand Data Time Resolution', 1],
                  ['District Heating Demand Data Column Number', 2]]
        c += [['Peaking Fuel Cost Rate', _round(rng.uniform(0.01, 0.08), 3)],
              ['Peaking Boiler Efficiency', _round(rng.uniform(0.6, 0.95), 3)],
              ['District Heating Piping Cost Rate', _round(rng.uniform(500, 2500), 4)]]
        r = rng.random()
        if r < 0.3:
            c.append(['District Heating Road Length', _round(rng.uniform(1, 20), 3)])
        elif r < 0.5:
            c.append(['Total District Heating Network Cost', _round(rng.uniform(0, 50), 3)])
        elif r < 0.7:
            c.append(['District Heating Network Piping Length', _round(rng.uniform(1, 30), 3)])
    if rng.random() < 0.3:
        c.append(['Surface Piping Length', _round(rng.uniform(0, 10), 3)])
    c.append(['Electricity Rate', _round(rng.uniform(0.02, 0.2), 3)])
    return c


def econ_block(rng, model):
    life = draw_small_int(rng, 1, 100, heavy=(20, 25, 30, 35, 40))
    if life > 60 and rng.random() < 0.7:
        life = rng.randint(5, 45)
    c = [['Plant Lifetime', life], ['Economic Model', model],
         ['Construction Years', draw_small_int(rng, 1, 14, heavy=(1, 1, 2, 3))],
         ['Time steps per year', draw_small_int(rng, 1, 12, heavy=(1, 2, 4, 4, 6))],
         ['Inflation Rate During Construction', rng.choice([0, _round(rng.uniform(0, 0.15), 3)])]]
    if model == 1:
        c.append(['Fixed Charge Rate', _round(rng.uniform(0.03, 0.2), 3)])
    elif model == 2:
        c.append(['Discount Rate', _round(rng.uniform(0.01, 0.15), 3)])
    else:
        c += [['Fraction of Investment in Bonds', _round(rng.uniform(0.1, 0.9), 3)],
              ['Inflated Bond Interest Rate', _round(rng.uniform(0.02, 0.1), 3)],
              ['Inflated Equity Interest Rate', _round(rng.uniform(0.05, 0.2), 3)],
              ['Inflation Rate', _round(rng.uniform(0.0, 0.06), 3)],
              ['Combined Income Tax Rate', _round(rng.uniform(0.0, 0.45), 3)],
              ['Gross Revenue Tax Rate', rng.choice([0, _round(rng.uniform(0.0, 0.1), 3)])],
              ['Investment Tax Credit Rate', rng.choice([0, _round(rng.uniform(0.0, 0.4), 3)])],
              ['Property Tax Rate', rng.choice([0, _round(rng.uniform(0.0, 0.03), 3)])]]
    if rng.random() < 0.5:
        c.append(['Fixed Internal Rate', _round(rng.uniform(2, 15), 3)])
    if rng.random() < 0.3:
        c.append(['Discount Initial Year Cashflow', rng.choice(['True', 'False'])])
    c.append(['Well Drilling Cost Correlation', rng.randint(1, 17)])
    return c


COST_COMPONENTS = [
    # (fixed-cost name, adjustment-factor name, plausible fixed range)
    ('Reservoir Stimulation Capital Cost', 'Reservoir Stimulation Capital Cost Adjustment Factor', (0, 20)),
    ('Exploration Capital Cost', 'Exploration Capital Cost Adjustment Factor', (0, 20)),
    ('Well Drilling and Completion Capital Cost', 'Well Drilling and Completion Capital Cost Adjustment Factor', (0.5, 20)),
    ('Surface Plant Capital Cost', 'Surface Plant Capital Cost Adjustment Factor', (1, 200)),
    ('Field Gathering System Capital Cost', 'Field Gathering System Capital Cost Adjustment Factor', (0, 20)),
    ('Wellfield O&M Cost', 'Wellfield O&M Cost Adjustment Factor', (0, 5)),
    ('Surface Plant O&M Cost', 'Surface Plant O&M Cost Adjustment Factor', (0, 8)),
    ('Water Cost', 'Water Cost Adjustment Factor', (0, 2)),
]


def cost_block(rng, enduse=1, ptype=1):
    """Any mix of user-fixed vs correlated components, adjustment factors in [0, 10], totals."""
    c = []
    for fixed, adj, (lo, hi) in COST_COMPONENTS:
        r = rng.random()
        if r < 0.3:
            # (one in eight of the supplied figures whose range starts at 0 is exactly 0: a supplied figure like any other)
            c.append([fixed, 0 if lo == 0 and rng.random() < 0.125 else _round(rng.uniform(lo, hi), 4)])
        elif r < 0.7:
            f = rng.choice([1, 1, 0, 10, _round(rng.uniform(0.2, 3), 3)])
            c.append([adj, f])
    if rng.random() < 0.15:
        c.append(['Injection Well Drilling and Completion Capital Cost', _round(rng.uniform(0.5, 20), 4)])
    if rng.random() < 0.15:
        c.append(['Injection Well Drilling and Completion Capital Cost Adjustment Factor', _round(rng.uniform(0.2, 3), 3)])
    if rng.random() < 0.12:
        c.append(['Total Capital Cost', _round(rng.uniform(5, 400), 4)])
    if rng.random() < 0.12:
        c.append(['Total O&M Cost', _round(rng.uniform(0.1, 20), 4)])
    if rng.random() < 0.2:
        c.append(['All-in Vertical Drilling Costs', _round(rng.uniform(300, 4000), 4)])
    # (a third of the user-supplied figures equal the parameter's declared default, 5 / 1 / 5, which is not the working value:
    # that is the -1 "use the correlation" sentinel)
    if enduse == 2 and ptype == 5 and rng.random() < 0.5:
        c.append(['Absorption Chiller Capital Cost', rng.choice([5, _round(rng.uniform(0.5, 20), 3), _round(rng.uniform(0.5, 20), 3)])])
        if rng.random() < 0.5:
            c.append(['Absorption Chiller O&M Cost', rng.choice([1, _round(rng.uniform(0.05, 2), 3), _round(rng.uniform(0.05, 2), 3)])])
    if enduse == 2 and ptype == 6 and rng.random() < 0.5:
        c.append(['Heat Pump Capital Cost', rng.choice([5, _round(rng.uniform(0.5, 20), 3), _round(rng.uniform(0.5, 20), 3)])])
    if enduse == 2 and ptype == 7 and rng.random() < 0.4:
        c.append(['District Heating O&M Cost', _round(rng.uniform(0.05, 3), 3)])
    if enduse > 2 and rng.random() < 0.3:
        c.append(['CHP Electrical Plant Cost Allocation Ratio', _round(rng.uniform(0.05, 0.95), 3)])
    return c


def incentive_block(rng, life):
    c = []
    if rng.random() < 0.35:
        c.append(['Investment Tax Credit Rate', _round(rng.uniform(0.0, 0.5), 3)])
    if rng.random() < 0.25:
        c.append(['One-time Grants Etc', _round(rng.uniform(0, 15), 3)])
    if rng.random() < 0.2:
        c.append(['Other Incentives', _round(rng.uniform(0, 8), 3)])
    if rng.random() < 0.2:
        c.append(['One-time Flat License Fees Etc', _round(rng.uniform(0, 8), 3)])
    if rng.random() < 0.2:
        c.append(['Annual License Fees Etc', _round(rng.uniform(0, 1.5), 3)])
    if rng.random() < 0.2:
        c.append(['Tax Relief Per Year', _round(rng.uniform(0, 1.5), 3)])
    return c


def price_block(rng, life):
    c = []
    for prod in ('Electricity', 'Heat', 'Cooling'):
        if rng.random() < 0.6:
            start = _round(_logu(rng, 0.005, 0.3), 3)
            end = start if rng.random() < 0.3 else _round(_logu(rng, 0.005, 0.5), 3)
            c += [[f'Starting {prod} Sale Price', start], [f'Ending {prod} Sale Price', end]]
            if rng.random() < 0.7:
                c += [[f'{prod} Escalation Start Year', draw_small_int(rng, 0, min(100, life + 3))],
                      [f'{prod} Escalation Rate Per Year', _round(_logu(rng, 0.0005, 0.05), 3)]]
    if rng.random() < 0.3:
        c.append(['Production Tax Credit Electricity', _round(rng.uniform(0.005, 0.08), 3)])
    if rng.random() < 0.2:
        c.append(['Production Tax Credit Heat', _round(rng.uniform(0.5, 10), 3)])
    if rng.random() < 0.15:
        c.append(['Production Tax Credit Cooling', _round(rng.uniform(0.5, 10), 3)])
    if any(k.startswith('Production Tax Credit') for k, _ in c):
        c.append(['Production Tax Credit Duration', draw_small_int(rng, 0, min(99, life))])
        r = rng.random()
        if r < 0.45:
            c.append(['Production Tax Credit Inflation Adjusted', 'True'])
            c.append(['Inflation Rate', _round(rng.uniform(0.0, 0.06), 3)])
        elif r < 0.7:
            # the flag written out as False (present in the file, but off) with a non-zero inflation rate
            c.append(['Production Tax Credit Inflation Adjusted', 'False'])
            c.append(['Inflation Rate', _round(rng.uniform(0.01, 0.06), 3)])
    if rng.random() < 0.2:
        c += [['Do Carbon Price Calculations', 'True'],
              ['Starting Carbon Credit Value', _round(rng.uniform(0, 0.05), 4)],
              ['Ending Carbon Credit Value', _round(rng.uniform(0.02, 0.2), 4)],
              ['Carbon Escalation Start Year', draw_small_int(rng, 0, min(100, life))],
              ['Carbon Escalation Rate Per Year', _round(rng.uniform(0.0005, 0.01), 4)]]
    return c


def addon_block(rng, n=None, zero=False):
    n = n or rng.randint(1, 3)
    c = []
    for i in range(1, n + 1):
        if zero:
            vals = (0, 0, 0, 0, 0)
        else:
            vals = (_round(rng.uniform(0, 40), 3), _round(rng.uniform(0, 2), 3),
                    rng.choice([0, _round(rng.uniform(0, 30000), 4)]), rng.choice([0, _round(rng.uniform(0, 30000), 4)]),
                    _round(rng.uniform(0, 5), 3))
        c += [[f'AddOn Nickname {i}', f'addon{i}'], [f'AddOn CAPEX {i}', vals[0]], [f'AddOn OPEX {i}', vals[1]],
              [f'AddOn Electricity Gained {i}', vals[2]], [f'AddOn Heat Gained {i}', vals[3]],
              [f'AddOn Profit Gained {i}', vals[4]]]
    return c


def sdac_block(rng):
    """Solid-sorbent direct air capture add-on (its own economics object and report block)."""
    c = [['Do S-DAC-GT Calculations', 'True']]
    opts = [('WACC', lambda: _round(rng.uniform(1, 25), 3)), ('S-DAC-GT CAPEX', lambda: _round(rng.uniform(150, 4000), 2)),
            ('S-DAC-GT OPEX', lambda: _round(rng.uniform(12, 400), 2)),
            ('S-DAC-GT Electrical Energy', lambda: _round(rng.uniform(150, 3000), 2)),
            ('S-DAC-GT Thermal Energy', lambda: _round(rng.uniform(150, 4000), 2)),
            ('S-DAC-GT Natural Gas Price', lambda: _round(_logu(rng, 0.6, 60), 3)),
            ('S-DAC-GT CO2 Intensity of Electricity', lambda: _round(rng.uniform(0, 1), 4)),
            ('S-DAC-GT CAPEX Multiplier', lambda: _round(rng.uniform(0.5, 3), 3)),
            ('S-DAC-GT OPEX Multiplier', lambda: _round(rng.uniform(0.5, 3), 3)),
            ('S-DAC-GT Thermal Energy Multiplier', lambda: _round(rng.uniform(0.5, 1.8), 3)),
            ('S-DAC-GT CO2 Transportation Cost', lambda: _round(rng.uniform(1, 50), 3)),
            ('S-DAC-GT CO2 Storage Cost', lambda: _round(rng.uniform(5, 50), 3)),
            ('S-DAC-GT CO2 Percent Energy Devoted To Process', lambda: _round(rng.uniform(0.05, 1.0), 3))]
    for name, f in opts:
        if rng.random() < 0.5:
            c.append([name, f()])
    return c


def overpressure_block(rng, depth_km):
    return [['Overpressure Percentage', _round(rng.uniform(100, 250), 4)],
            ['Overpressure Depletion Rate', _round(_logu(rng, 0.2, 20), 3)],
            ['Injection Reservoir Temperature', _round(rng.uniform(60, 200), 3)],
            ['Injection Reservoir Depth', _round(rng.uniform(0.8, 1.2) * depth_km * 1000, 5)],
            ['Injection Reservoir Initial Pressure', rng.choice([0, _round(rng.uniform(5000, 40000), 5)])],
            ['Injection Reservoir Inflation Rate', _round(_logu(rng, 10, 3000), 3)]]


def grid_cells(res_models=(3, 4), econ_models=(1, 2, 3)):
    cells = []
    for em in econ_models:
        for eu in END_USES:
            types = POWER_TYPES if eu != 2 else HEAT_TYPES
            for pt in types:
                for rm in res_models:
                    cells.append((em, eu, pt, rm))
    return cells


def odd_cells():
    """Grid cells outside the main walk that the simulator accepts: direct-use heat with a power-plant type code
    (the plant is then the industrial-heat plant) and the cylindrical reservoir model."""
    cells = [(em, 2, pt, rm) for em in (1, 2, 3) for pt in (1, 2, 3, 4) for rm in (3, 4)]
    cells += [(em, eu, pt, 0) for em in (1, 2, 3) for eu, pt in ((1, 1), (1, 2), (2, 9), (31, 2), (2, 6), (2, 5), (52, 4), (41, 1))]
    return cells


def synth_case(rng, cell, *, costs=True, incentives=True, prices=True, addons=None, overpressure=None, nseg=None,
               impedance=None, resource='plausible', sdac=None):
    """One synthetic configuration for grid cell (economic model, end-use, plant type, reservoir model)."""
    em, eu, pt, rm = cell
    c = []
    c += reservoir_block(rng, rm)
    res = resource_block(rng, nseg=nseg) if resource == 'plausible' else resource_block_hostile(rng)
    c += res
    flash = pt in (3, 4) and eu != 2
    c += wells_block(rng, impedance=False if flash else impedance)
    c += plant_block(rng, eu, pt)
    ec = econ_block(rng, em)
    c += ec
    life = cget(ec, 'Plant Lifetime')
    if eu == 2 and pt == 7:
        # district heating: two Calculate passes and a 365 x lifetime demand loop; keep runs short
        cset(c, 'Plant Lifetime', min(life, rng.choice([1, 2, 5, 10, 20])))
        life = cget(c, 'Plant Lifetime')
    if rm in (1, 2):
        # inverse-Laplace models: ~2 s per run at default resolution
        cset(c, 'Time steps per year', min(cget(c, 'Time steps per year'), 4))
    if costs:
        c += cost_block(rng, eu, pt)
    if incentives:
        for k, v in incentive_block(rng, life):
            cset(c, k, v)
    if prices:
        for k, v in price_block(rng, life):
            cset(c, k, v)
    has_impedance = cget(c, 'Reservoir Impedance') is not None
    if overpressure is None:
        overpressure = rng.random() < 0.12 and not flash
    if overpressure and has_impedance:
        # overpressure + impedance model crashes the report writer (PumpingPowerProd is the int 0): not an accepted input
        cdel(c, 'Reservoir Impedance')
        c += [['Injectivity Index', _round(_logu(rng, 2, 30), 3)], ['Productivity Index', _round(_logu(rng, 2, 30), 3)]]
    if overpressure:
        c += overpressure_block(rng, cget(res, 'Reservoir Depth'))
    if addons is None:
        addons = rng.random() < 0.15
    if addons:
        c += addon_block(rng)
        # add-ons with more than one construction year abort the extended-profile writer (length mismatch)
        cset(c, 'Construction Years', 1)
    if sdac is None:
        sdac = rng.random() < 0.06
    if sdac:
        c += sdac_block(rng)
    c.append(['Print Output to Console', 0])
    return c


EXAMPLE_FAMILIES = {
    'std-1': ['example1', 'example_ITC', 'example_PTC', 'example_multiple_gradients'],
    'std-2': ['example2'],
    'std-3': ['example3', 'example10_HP', 'example11_AC', 'example8', 'example9'],
    'std-4': ['example4', 'example13'],
    'upp': ['example5'],
    'dh': ['example12_DH'],
    'addons': ['example1_addons'],
    'sdacgt': ['S-DAC-GT'],
    'overpressure': ['example_overpressure', 'example_overpressure2'],
    'multiseg': ['example_multiple_gradients', 'example_multiple_gradients-2'],
    'sutra': ['SUTRAExample1'],
    'ags-wanju': ['Wanju_Yuan_Closed-Loop_Geothermal_Energy_Recovery'],
    'sbt': ['example_SBT_Lo_T', 'example_SBT_Hi_T'],
    'fervo': ['Fervo_Norbeck_Latimer_2023', 'Fervo_Project_Cape', 'Fervo_Project_Cape-2', 'Fervo_Project_Cape-3'],
    'shr': ['example_SHR-1', 'example_SHR-2'],
}

FAST_EXAMPLES = ['example3', 'example4', 'example8', 'example9', 'example10_HP', 'example11_AC', 'example13',
                 'S-DAC-GT', 'example5']
SLOW_EXAMPLES = ['example1', 'example2', 'example12_DH', 'example1_addons', 'example_ITC', 'example_PTC',
                 'example_overpressure', 'example_overpressure2', 'example_multiple_gradients',
                 'example_multiple_gradients-2', 'Fervo_Norbeck_Latimer_2023', 'Fervo_Project_Cape',
                 'Fervo_Project_Cape-2', 'Fervo_Project_Cape-3', 'example_SHR-1', 'example_SHR-2',
                 'SUTRAExample1', 'Wanju_Yuan_Closed-Loop_Geothermal_Energy_Recovery', 'example6', 'example7']


def example_case(name):
    case, raw = parse_example(example_path(name))
    cset(case, 'Print Output to Console', 0)
    return case, raw


def sbt_case(rng, name, k=0):
    """Closed-loop SBT family (SBTReservoir / SBTWellbores / SBTEconomics): a shipped SBT case with its cost inputs,
    incentives, prices, schedule and economic model redrawn; k cycles the directed ingredients so that a handful of cases
    always contains several construction years, ITC together with grants / incentives / fees, and correlated as well as
    user-fixed cost components."""
    case, raw = example_case(name)
    life = rng.choice([7, 15, 25, 30, 35])
    cset(case, 'Plant Lifetime', life)
    cset(case, 'Construction Years', rng.choice([2, 3, 4, 7]) if k % 3 == 0 else rng.choice([1, 1, 2]))
    cset(case, 'Economic Model', rng.choice([1, 2, 3, 3]))
    cset(case, 'Utilization Factor', _round(rng.uniform(0.5, 1.0), 3))
    cset(case, 'Inflation Rate During Construction', _round(rng.uniform(0, 0.1), 3))
    cset(case, 'Discount Initial Year Cashflow', rng.choice(['True', 'False']))
    # cost inputs: drop the example's fixed figures first so that correlated components are exercised as well
    for fixed, adj, (lo, hi) in COST_COMPONENTS:
        cdel(case, fixed)
        cdel(case, adj)
    for kk, v in cost_block(rng, 1, 2):
        if kk in ('Total Capital Cost', 'Total O&M Cost') and k % 2 == 0:
            continue
        cset(case, kk, v)
    if k % 3 == 1:
        cset(case, 'Investment Tax Credit Rate', _round(rng.uniform(0.05, 0.5), 3))
        cset(case, 'One-time Grants Etc', _round(rng.uniform(0.5, 8), 3))
        cset(case, 'Other Incentives', _round(rng.uniform(0.5, 5), 3))
        cset(case, 'One-time Flat License Fees Etc', _round(rng.uniform(0.5, 5), 3))
        cset(case, 'Annual License Fees Etc', _round(rng.uniform(0, 0.5), 3))
        cset(case, 'Tax Relief Per Year', _round(rng.uniform(0, 0.5), 3))
    else:
        for kk, v in incentive_block(rng, life):
            cset(case, kk, v)
    for kk, v in price_block(rng, life):
        cset(case, kk, v)
    # extensions that change the energy sold after the plant calculation: add-ons (single construction year: see synth_case)
    # and S-DAC-GT
    if k % 4 == 2:
        case += addon_block(rng)
        cset(case, 'Construction Years', 1)
    elif k % 4 == 3:
        case += sdac_block(rng)
    return case, raw


def perturb_example(rng, name, strength=0.5):
    """Shipped example with a handful of economic / operating parameters redrawn (keeps the physics runnable)."""
    case, raw = example_case(name)
    # (not for SUTRA: the horizon of a SUTRA run is the one of the user's SUTRA output file; a lifetime that contradicts the
    # file is an inconsistent input, not an accepted one - numpy broadcasting then mixes a 1-year discount vector with the
    # file's 30 annual values)
    if rng.random() < strength and not name.startswith('SUTRA'):
        cset(case, 'Plant Lifetime', draw_small_int(rng, 1, 50, heavy=(20, 25, 30)))
    if rng.random() < strength:
        cset(case, 'Construction Years', draw_small_int(rng, 1, 14, heavy=(1, 2, 3)))
    if rng.random() < strength:
        cset(case, 'Utilization Factor', _round(rng.uniform(0.3, 1.0), 3))
    if rng.random() < strength:
        cset(case, 'Inflation Rate During Construction', _round(rng.uniform(0, 0.15), 3))
    if rng.random() < strength:
        for k, v in incentive_block(rng, int(float(cget(case, 'Plant Lifetime', 30)))):
            cset(case, k, v)
    if rng.random() < strength:
        for k, v in price_block(rng, int(float(cget(case, 'Plant Lifetime', 30)))):
            cset(case, k, v)
    if rng.random() < strength * 0.6:
        em = rng.choice([1, 2, 3])
        if str(cget(case, 'Economic Model', '2')) not in ('4',):
            cset(case, 'Economic Model', em)
    if name in ('example12_DH',):
        cset(case, 'Plant Lifetime', min(int(float(cget(case, 'Plant Lifetime'))), 20))
    return case, raw
