"""Pool worker: executes jobs {'fn': 'module:callable', 'args': {...}} read as JSON lines from stdin."""
import importlib
import json
import os
import sys
import traceback


def _default(o):
    import numpy as np
    if isinstance(o, np.ndarray):
        return o.tolist()
    if isinstance(o, np.generic):
        return o.item()
    if isinstance(o, (set, tuple)):
        return list(o)
    return repr(o)


def main():
    from gxv import env
    env.bootstrap()
    proto = os.fdopen(os.dup(1), 'w', buffering=1)
    devnull = open(os.devnull, 'w')
    os.dup2(devnull.fileno(), 1)
    sys.stdout = devnull
    import warnings
    warnings.filterwarnings('ignore')
    try:
        import numpy as np
        np.seterr(all='ignore')
    except Exception:
        pass
    from gxv import runner
    runner.workdir()
    cache = {}
    for line in sys.stdin:
        line = line.strip()
        if not line:
            continue
        try:
            job = json.loads(line)
            fn = cache.get(job['fn'])
            if fn is None:
                mod, name = job['fn'].split(':')
                fn = getattr(importlib.import_module(mod), name)
                cache[job['fn']] = fn
            val = fn(**job.get('args', {}))
            rep = {'status': 'ok', 'value': val}
        except BaseException as e:  # noqa
            if isinstance(e, KeyboardInterrupt):
                raise
            rep = {'status': 'error', 'error': traceback.format_exc(limit=-8)}
        try:
            s = json.dumps(rep, default=_default, allow_nan=True)
        except Exception as e:  # noqa
            s = json.dumps({'status': 'error', 'error': 'unserialisable reply: ' + repr(e)})
        proto.write('@@GXV ' + s + '\n')
        proto.flush()


if __name__ == '__main__':
    main()
