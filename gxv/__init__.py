"""gxv - runtime-monitoring machinery for the GEOPHIRES-X properties C01-C20.

Everything here runs under /venv/bin/python (the repository's interpreter).  The repository is imported
from $GXV_REPO/src (default /repo/src), put first on sys.path by gxv.env.bootstrap(), so checks always
execute the current working tree.
"""
