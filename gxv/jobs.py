"""Generic worker-side jobs."""
from . import runner
from .verdict import Mon


def _oracle(name):
    from . import oracles_econ
    table = {'c01': ('C01', oracles_econ.c01), 'c03': ('C03', oracles_econ.c03), 'c04': ('C04', oracles_econ.c04),
             'c16': ('C16', oracles_econ.c16_run)}
    if name in table:
        return table[name]
    from . import oracles_phys
    table2 = {'c02': ('C02', oracles_phys.c02), 'c05': ('C05', oracles_phys.c05), 'c15': ('C15', oracles_phys.c15)}
    if name in table2:
        return table2[name]
    if name == 'c09':
        from . import oracles_report
        return 'C09', oracles_report.c09
    raise KeyError(name)


def run_oracles(text, oracles, tag=None, contracts=True):
    """Run one input through the real pipeline (contracts attached to the real functions) and evaluate the named
    single-run oracles on its snapshot."""
    if contracts:
        from . import contracts as C
        C.attach()
        C.reset()
    res = runner.run_text(text)
    out = {'tag': tag, 'ok': res.ok, 'exc_type': res.exc_type, 'exc_msg': (res.exc_msg or '')[:200],
           'stages': res.stages, 'wall': res.wall, 'mons': {}, 'cfg': None}
    if contracts:
        d = C.dump()
        # contract observations of a run that later failed are still observations of real calls
        out['contracts'] = d['mons']
        out['contract_counts'] = d['counts']
        out['contract_engine'] = d['engine']
    if not res.ok or res.snap is None:
        if not res.ok and res.tb:
            out['tb_tail'] = res.tb.strip().splitlines()[-3:]
        return out
    from .oracles_econ import config
    try:
        out['cfg'] = config(res.snap)
    except Exception as ex:  # noqa
        out['cfg'] = {'error': repr(ex)}
    for name in oracles:
        prop, fn = _oracle(name)
        mon = Mon(prop)
        try:
            if name in ('c05',):
                fn(mon, res.snap, text)
            elif name == 'c09':
                fn(mon, res.snap, res.report)
            else:
                fn(mon, res.snap)
        except Exception as ex:  # oracle/reference failure = inconclusive for this case, never a violation
            import traceback
            mon.inconclusive('oracle-error', type(ex).__name__)
            mon.note('oracle-error:' + traceback.format_exc(limit=-3).strip().replace('\n', ' | ')[-300:])
        out['mons'][name] = mon.dump()
    return out


def extract(res):
    """Small JSON-able summary of one run for the pair / chain properties (C11, C12, C18)."""
    import numpy as np
    out = {'ok': res.ok, 'exc_type': res.exc_type, 'exc_msg': (res.exc_msg or '')[:160]}
    if not res.ok or res.snap is None:
        return out
    s = res.snap
    ec, sp, wb, rs = s.economics, s.surfaceplant, s.wellbores, s.reserv

    def f(p):
        try:
            return float(p.value)
        except (TypeError, ValueError, AttributeError):
            return None

    def arr(p):
        try:
            return [float(x) for x in np.asarray(p.value, dtype=float).reshape(-1)]
        except (TypeError, ValueError, AttributeError):
            return None
    from .oracles_econ import config
    out['cfg'] = config(s)
    for k in ('LCOE', 'LCOH', 'LCOC', 'CCap', 'Coam', 'ProjectNPV', 'ProjectIRR', 'cost_one_production_well',
              'cost_one_injection_well', 'Cwell', 'Cstim', 'Cplant', 'Cgath', 'Cexpl'):
        out[k] = f(getattr(ec, k)) if ec.has(k) else None
    out['chp_ratio'] = f(ec.CAPEX_heat_electricity_plant_ratio) if ec.has('CAPEX_heat_electricity_plant_ratio') else None
    out['Trock'] = f(rs.Trock) if rs.has('Trock') else None
    out['Tres'] = arr(rs.Tresoutput) if rs.has('Tresoutput') else None
    out['Tprod'] = arr(wb.ProducedTemperature) if wb.has('ProducedTemperature') else None
    out['redrill'] = f(wb.redrill) if wb.has('redrill') else None
    for k in ('DPProdWell', 'DPInjWell'):
        out[k] = arr(getattr(wb, k)) if wb.has(k) else None
    for k in ('NetkWhProduced', 'HeatkWhProduced', 'cooling_kWh_Produced', 'PumpingkWh'):
        out[k] = arr(getattr(sp, k)) if sp.has(k) else None
    if s.addeconomics is not None:
        ae = s.addeconomics
        out['addon'] = {k: f(getattr(ae, k)) for k in ('ProjectNPV', 'AdjustedProjectCAPEX', 'AdjustedProjectOPEX') if ae.has(k)}
    return out


def multi_run(texts, want_report=False, want_extract=True):
    """Run several inputs in this worker; returns one summary per input."""
    outs = []
    for t in texts:
        res = runner.run_text(t, want_snap=want_extract)
        o = extract(res) if want_extract else {'ok': res.ok, 'exc_type': res.exc_type, 'exc_msg': (res.exc_msg or '')[:160]}
        if want_report:
            o['report'] = runner.norm_report(res.report) if res.report else None
        outs.append(o)
    return outs
