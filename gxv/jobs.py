"""Generic worker-side jobs."""
from . import runner
from .verdict import Mon


def _oracle(name):
    from . import oracles_econ
    table = {'c01': ('C01', oracles_econ.c01), 'c03': ('C03', oracles_econ.c03), 'c04': ('C04', oracles_econ.c04),
             'c16': ('C16', oracles_econ.c16_run)}
    if name in table:
        return table[name]
    from . import oracles_phys
    table2 = {'c02': ('C02', oracles_phys.c02), 'c05': ('C05', oracles_phys.c05), 'c15': ('C15', oracles_phys.c15)}
    if name in table2:
        return table2[name]
    if name == 'c09':
        from . import oracles_report
        return 'C09', oracles_report.c09
    raise KeyError(name)


def run_oracles(text, oracles, tag=None, contracts=True):
    """Run one input through the real pipeline (contracts attached to the real functions) and evaluate the named
    single-run oracles on its snapshot."""
    if contracts:
        from . import contracts as C
        C.attach()
        C.reset()
    res = runner.run_text(text)
    out = {'tag': tag, 'ok': res.ok, 'exc_type': res.exc_type, 'exc_msg': (res.exc_msg or '')[:200],
           'stages': res.stages, 'wall': res.wall, 'mons': {}, 'cfg': None}
    if contracts:
        d = C.dump()
        # contract observations of a run that later failed are still observations of real calls
        out['contracts'] = d['mons']
        out['contract_counts'] = d['counts']
        out['contract_engine'] = d['engine']
    if not res.ok or res.snap is None:
        if not res.ok and res.tb:
            out['tb_tail'] = res.tb.strip().splitlines()[-3:]
        return out
    from .oracles_econ import config
    try:
        out['cfg'] = config(res.snap)
    except Exception as ex:  # noqa
        out['cfg'] = {'error': repr(ex)}
    for name in oracles:
        prop, fn = _oracle(name)
        mon = Mon(prop)
        try:
            if name in ('c05',):
                fn(mon, res.snap, text)
            elif name == 'c09':
                fn(mon, res.snap, res.report)
            else:
                fn(mon, res.snap)
        except Exception as ex:  # oracle/reference failure = inconclusive for this case, never a violation
            import traceback
            mon.inconclusive('oracle-error', type(ex).__name__)
            mon.note('oracle-error:' + traceback.format_exc(limit=-3).strip().replace('\n', ' | ')[-300:])
        out['mons'][name] = mon.dump()
    return out
