"""Process bootstrap: paths, environment, silence."""
import os
import sys

VERIF = os.path.dirname(os.path.dirname(os.path.abspath(__file__)))
REPO = os.environ.get('GXV_REPO', '/repo')
SRC = os.path.join(REPO, 'src')
DEPS = os.path.join(VERIF, '.deps')
PY = '/venv/bin/python'
GUARD = 'GEOPHIRES_X_VERIF'
OBSERVER_ENV = 'GEOPHIRES_X_VERIF_OBSERVER'
OBSERVER = 'gxv.observe:hook'


def bootstrap():
    """Make the repo under test and the offline deps importable; idempotent."""
    for p in (DEPS, VERIF, SRC):
        if p in sys.path:
            sys.path.remove(p)
    # repo first so an editable install of another tree can never shadow GXV_REPO
    sys.path.insert(0, DEPS)
    sys.path.insert(0, VERIF)
    sys.path.insert(0, SRC)
    os.environ[GUARD] = '1'
    os.environ[OBSERVER_ENV] = OBSERVER
    os.environ.setdefault('MPLBACKEND', 'Agg')


def child_env(extra=None, hashseed='0'):
    env = dict(os.environ)
    env['PYTHONPATH'] = os.pathsep.join([SRC, VERIF, DEPS])
    env[GUARD] = '1'
    env[OBSERVER_ENV] = OBSERVER
    env['PYTHONHASHSEED'] = str(hashseed)
    env['GXV_REPO'] = REPO
    env['MPLBACKEND'] = 'Agg'
    env.setdefault('OMP_NUM_THREADS', '1')
    env['OPENBLAS_NUM_THREADS'] = '1'
    env['MKL_NUM_THREADS'] = '1'
    if extra:
        env.update(extra)
    return env


def examples_dir():
    return os.path.join(SRC, 'geophires_x', 'Examples')
