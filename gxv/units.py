"""The harness's own pint registry (not the repository's application registry) and normalisation of the unit texts
that appear in reports, declarations and input files."""
import functools
import re

import pint

UREG = pint.UnitRegistry()
UREG.define('USD = [currency]')
UREG.define('cents = USD / 100')
UREG.define('KUSD = 1000 * USD')
UREG.define('MUSD = 1000000 * USD')
UREG.define('MMBTU = 1000000 * BTU')
UREG.define('EUR = [currency_eur]')

ALIASES = {
    '': 'dimensionless', '%': 'percent', 'count': 'dimensionless', '-': 'dimensionless',
    'deg C': 'degC', 'degc': 'degC', 'C': 'degC', 'deg.C': 'degC', 'degF': 'degF', 'K': 'kelvin',
    'degC/km': 'delta_degC/km', 'degC/m': 'delta_degC/m', 'degF/100ft': 'delta_degF/(100*ft)', 'degF/ft': 'delta_degF/ft',
    'degF/mi': 'delta_degF/mile',
    'kg/sec': 'kg/s', 'kg/sec/bar': 'kg/s/bar', 'lb/sec': 'lb/s', 'gpm': 'gallon/minute', 'gal/min': 'gallon/minute',
    'yr': 'year', 'MUSD/yr': 'MUSD/year', 'KUSD/yr': 'KUSD/year', 'USD/yr': 'USD/year',
    'GWh/year': 'GWh/year', 'GWh': 'GWh', 'kWh/yr': 'kWh/year', 'kW/yr': 'kW/year', 'MWh/day': 'MWh/day',
    '10^15 J': 'PJ', '1E15': 'PJ', 'J/kg/K': 'J/kg/K', 'W/m/K': 'W/m/K', 'kJ/kgC': 'kJ/kg/delta_degC',
    'PaSec': 'Pa*s', 'GPa.s/m**3': 'GPa*s/m**3', 'GPa*s/m3': 'GPa*s/m**3',
    'MW/(kg/s)': 'MW/(kg/s)', 'in': 'inch', 'lbs/kWh': 'lb/kWh', 'USD/lb': 'USD/lb', 'lb': 'lb', 'kilotonne': 'kilotonne',
    'USD/MMBTU': 'USD/MMBTU', 'cents/kWh': 'cents/kWh', 'USD/kWh': 'USD/kWh', 'USD/m': 'USD/m', 'USD/tonne': 'USD/tonne',
    'MW': 'MW', 'MWe': 'MW', 'MWt': 'MW', 'MWth': 'MW', '%/yr': 'percent/year', 'kPa/yr': 'kPa/year',
    'tonne': 'tonne', 't/MWh': 'tonne/MWh', 'kWh/t': 'kWh/tonne', 'kW/t': 'kW/tonne', 'USD/MCF': 'USD/MCF',
}
UREG.define('MCF = [mcf]')


@functools.lru_cache(maxsize=4096)
def norm(text):
    t = (text or '').strip()
    if t in ALIASES:
        return ALIASES[t]
    return t


@functools.lru_cache(maxsize=4096)
def unit(text):
    """pint Unit for a unit text, or None if it cannot be interpreted."""
    try:
        return UREG.parse_units(norm(text))
    except Exception:
        try:
            return UREG.parse_expression(norm(text)).units
        except Exception:
            return None


def convert(value, from_text, to_text):
    """value [from] -> number in [to]; raises ValueError when not convertible."""
    a, b = norm(from_text), norm(to_text)
    if a == b:
        return value
    ua, ub = unit(from_text), unit(to_text)
    if ua is None or ub is None:
        raise ValueError(f'unknown unit {from_text!r} or {to_text!r}')
    try:
        return UREG.Quantity(value, ua).to(ub).magnitude
    except Exception as ex:
        raise ValueError(f'cannot convert {from_text!r} to {to_text!r}: {type(ex).__name__}')


def same_dimension(a_text, b_text):
    ua, ub = unit(a_text), unit(b_text)
    if ua is None or ub is None:
        return None
    try:
        return UREG.Quantity(1.0, ua).check(ub.dimensionality) if hasattr(ub, 'dimensionality') else None
    except Exception:
        return None
