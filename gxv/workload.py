"""Shared workload: the configuration grid walk + shipped examples, evaluated by single-run oracles in the pool."""
import time

from . import gen
from .pool import Pool

ORACLE_PROP = {'c01': 'C01', 'c02': 'C02', 'c03': 'C03', 'c04': 'C04', 'c05': 'C05', 'c09': 'C09', 'c15': 'C15',
               'c16': 'C16'}


def synth_jobs(ctx, oracles, n, res_models=(3, 4), econ_models=(1, 2, 3), cells=None, **synth_kw):
    cells = list(cells) if cells is not None else gen.grid_cells(res_models=res_models, econ_models=econ_models)
    ctx.rng.shuffle(cells)
    jobs = []
    for i in range(n):
        cell = cells[i % len(cells)]
        case = gen.synth_case(ctx.rng, cell, **synth_kw)
        raw = []
        if ctx.rng.random() < 0.12:
            # output-unit directives on the price models (series outputs held in USD/kWh, preferred cents/kWh, shown only in
            # the revenue table): the report must show them in the requested unit
            for name in ('Electricity Sale Price Model', 'Heat Sale Price Model', 'Cooling Sale Price Model'):
                if ctx.rng.random() < 0.6:
                    raw.append(f'Units:{name}, ' + ctx.rng.choice(['USD/MWh', 'USD/kWh', 'cents/kWh', 'USD/MMBTU']))
        text = gen.render(case, raw)
        jobs.append({'fn': 'gxv.jobs:run_oracles', 'args': {'text': text, 'oracles': oracles, 'tag': {'cell': list(cell)}},
                     'timeout': 120 if cell[3] in (3, 4) else 300})
    return jobs


def example_jobs(ctx, oracles, names, perturbed=0):
    jobs = []
    for name in names:
        case, raw = gen.example_case(name)
        jobs.append({'fn': 'gxv.jobs:run_oracles',
                     'args': {'text': gen.render(case, raw), 'oracles': oracles, 'tag': {'example': name}},
                     'timeout': 900 if 'SBT' in name else 300})
        for k in range(perturbed):
            case, raw = gen.perturb_example(ctx.rng, name)
            jobs.append({'fn': 'gxv.jobs:run_oracles',
                         'args': {'text': gen.render(case, raw), 'oracles': oracles,
                                  'tag': {'example': name, 'perturbed': k}},
                         'timeout': 900 if 'SBT' in name else 300})
    return jobs


def run_grid(ctx, jobs, own, nontrivial_note=None, workers=16, deadline_s=None):
    """Run jobs; merge the oracle named `own` into ctx.mon, all others into cross-observation monitors."""
    cells = set()
    accepted = 0
    deadline = time.time() + deadline_s if deadline_s else None
    with Pool(workers) as pool:
        for r in pool.map(jobs, timeout=300, deadline=deadline):
            if r.status == 'skipped':
                ctx.mon.note('jobs-skipped-at-deadline')
                continue
            ctx.evaluations += 1
            if r.status != 'ok':
                ctx.job_inconclusive(r.detail)
                continue
            v = r.value
            text = r.job['args']['text']
            case = {'tag': v.get('tag'), 'input_text': text, 'job_fn': r.job['fn'], 'oracles': r.job['args']['oracles']}
            own_prop = ORACLE_PROP.get(own, own.upper())
            for prop, dump in (v.get('contracts') or {}).items():
                if prop == own_prop:
                    ctx.mon.merge(dump, case=case)
                else:
                    ctx.cross_mon(prop).merge(dump)
            cc = ctx.coverage.setdefault('contract_evaluations', {})
            for k, n in (v.get('contract_counts') or {}).items():
                cc[k] = cc.get(k, 0) + n
            if v.get('contract_engine'):
                ctx.coverage['contract_engine'] = v['contract_engine']
            if not v['ok']:
                ctx.reject(v['exc_type'], v['exc_msg'])
                continue
            accepted += 1
            for name, dump in v['mons'].items():
                if name == own:
                    ctx.mon.merge(dump, case=case)
                    nt = True
                    if nontrivial_note is not None:
                        nt = dump.get('notes', {}).get(nontrivial_note, 0) > 0
                    if nt and sum(dump.get('evals', {}).values()) > 0:
                        ctx.distinct.add(gen.case_hash(text))
                        ctx.sample({'tag': v.get('tag'), 'cfg': v.get('cfg'),
                                    'input_head': text.split('\n')[:12],
                                    'clause_evaluations': dump.get('evals')})
                else:
                    ctx.cross_mon(ORACLE_PROP.get(name, name.upper())).merge(dump)
            cfg = v.get('cfg') or {}
            if 'econ' in cfg:
                cells.add((cfg['econ'], cfg['enduse'], cfg['ptype'], cfg['res']))
    ctx.coverage['accepted_runs'] = ctx.coverage.get('accepted_runs', 0) + accepted
    ctx.coverage['grid_cells_observed'] = len(cells | set(map(tuple, ctx.coverage.get('_cells', []))))
    ctx.coverage['_cells'] = sorted(cells | set(map(tuple, ctx.coverage.get('_cells', []))))
    return accepted


def replay_run_oracles(ctx, payload):
    """Replay for violations found by run_oracles jobs: re-run the recorded input and re-evaluate the oracle."""
    from . import jobs
    from .check import finish
    case = payload.get('case') or {}
    text = case.get('input_text')
    if text is None:
        print('replay: payload has no input_text')
        return 2
    own = [k for k, p in ORACLE_PROP.items() if p == ctx.prop]
    v = jobs.run_oracles(text, own)
    ctx.evaluations = 1
    if not v['ok']:
        ctx.reject(v['exc_type'], v['exc_msg'])
    for prop, dump in (v.get('contracts') or {}).items():
        if prop == ctx.prop:
            ctx.mon.merge(dump, case=case)
    for name, dump in v['mons'].items():
        ctx.mon.merge(dump, case=case)
        if sum(dump.get('evals', {}).values()):
            ctx.distinct.add(gen.case_hash(text))
    ctx.rule = 'replay of one recorded case'
    ctx.sample({'replayed': case.get('tag')})
    for vv in ctx.mon.viols:
        print('replayed violation:', vv['mechanism'], str(vv['witness'])[:300])
    return 1 if ctx.mon.viols else 0
