"""Observer for the repo hook (GEOPHIRESv3._verif_hook): takes a deep snapshot of the live Model between
Calculate() and PrintOutputs() - i.e. *before* the report writer converts values in place - and records which
pipeline stages were reached.  One record per run; the runner resets it.
"""
import copy
import enum

import numpy as np

MODULES = ('reserv', 'wellbores', 'surfaceplant', 'economics', 'addeconomics', 'sdacgteconomics', 'outputs')


class P:
    """Frozen copy of one Parameter / OutputParameter."""
    __slots__ = ('Name', 'value', 'CurrentUnits', 'PreferredUnits', 'UnitType', 'Provided', 'Valid', 'Min', 'Max',
                 'AllowableRange', 'DefaultValue', 'cls', 'is_output', 'Required')

    def __repr__(self):
        return f'P({self.Name!r}={self.value!r} [{self.CurrentUnits}])'


class M:
    """Frozen copy of one module object: attribute name -> P or plain value; plus dict views by parameter Name."""

    def __init__(self, cls_name):
        self._cls = cls_name
        self._params = {}      # Name -> P for ParameterDict
        self._outputs = {}     # Name -> P for OutputParameterDict

    def __getattr__(self, item):
        raise AttributeError(f'{self._cls} snapshot has no attribute {item}')

    def has(self, item):
        return item in self.__dict__

    def get(self, item, default=None):
        return self.__dict__.get(item, default)


def _unit_str(u):
    if u is None:
        return None
    if isinstance(u, enum.Enum):
        return str(u.value)
    return str(u)


def _copy_value(v):
    if isinstance(v, np.ndarray):
        return v.copy()
    if isinstance(v, enum.Enum):
        return v
    if isinstance(v, (int, float, str, bool, type(None), np.generic)):
        return v
    if isinstance(v, (list, tuple)):
        try:
            return [_copy_value(x) for x in v]
        except Exception:
            return None
    if isinstance(v, dict):
        return None
    try:
        return copy.deepcopy(v)
    except Exception:
        return None


def snap_param(p):
    s = P()
    s.Name = getattr(p, 'Name', '')
    s.value = _copy_value(getattr(p, 'value', None))
    s.CurrentUnits = _unit_str(getattr(p, 'CurrentUnits', None))
    s.PreferredUnits = _unit_str(getattr(p, 'PreferredUnits', None))
    ut = getattr(p, 'UnitType', None)
    s.UnitType = ut.name if isinstance(ut, enum.Enum) else str(ut)
    s.Provided = getattr(p, 'Provided', None)
    s.Valid = getattr(p, 'Valid', None)
    s.Min = getattr(p, 'Min', None)
    s.Max = getattr(p, 'Max', None)
    ar = getattr(p, 'AllowableRange', None)
    s.AllowableRange = list(ar) if ar is not None else None
    s.DefaultValue = _copy_value(getattr(p, 'DefaultValue', None))
    s.cls = type(p).__name__
    s.is_output = type(p).__name__ == 'OutputParameter'
    s.Required = getattr(p, 'Required', None)
    return s


def _is_param(v):
    return hasattr(v, 'value') and hasattr(v, 'Name') and hasattr(v, 'CurrentUnits')


def snap_module(obj):
    m = M(type(obj).__name__)
    seen = {}
    for k, v in vars(obj).items():
        if _is_param(v):
            sp = seen.get(id(v))
            if sp is None:
                sp = snap_param(v)
                seen[id(v)] = sp
            m.__dict__[k] = sp
        elif isinstance(v, (int, float, bool, str, np.ndarray, list, tuple, enum.Enum, np.generic)) or v is None:
            m.__dict__[k] = _copy_value(v)
    for dname, target in (('ParameterDict', m._params), ('OutputParameterDict', m._outputs)):
        d = getattr(obj, dname, None)
        if isinstance(d, dict):
            for name, v in d.items():
                if _is_param(v):
                    sp = seen.get(id(v))
                    if sp is None:
                        sp = snap_param(v)
                        seen[id(v)] = sp
                    target[name] = sp
    return m


class Snapshot:
    def __init__(self):
        self.classes = {}
        self.input_keys = []

    def has(self, mod):
        return getattr(self, mod, None) is not None


def snapshot(model):
    s = Snapshot()
    for name in MODULES:
        obj = getattr(model, name, None)
        if obj is None:
            setattr(s, name, None)
            continue
        s.classes[name] = type(obj).__name__
        setattr(s, name, snap_module(obj))
    s.input_keys = list(getattr(model, 'InputParameters', {}).keys())
    s.input_values = {k: v.sValue for k, v in getattr(model, 'InputParameters', {}).items()}
    return s


class Record:
    def __init__(self):
        self.stages = []
        self.snap = None            # Snapshot at after_calculate
        self.read = None            # declarations at after_read (optional)
        self.want_read = False
        self.want_snap = True
        self.stop_after_read = False
        self.extra = {}
        self.callbacks = []         # callables (stage, model) registered by property code


CURRENT = Record()


class StopAfterRead(Exception):
    """Raised by the observer to end a read-phase-only probe."""


def reset(want_snap=True, want_read=False, stop_after_read=False, callbacks=()):
    global CURRENT
    CURRENT = Record()
    CURRENT.want_snap = want_snap
    CURRENT.want_read = want_read
    CURRENT.stop_after_read = stop_after_read
    CURRENT.callbacks = list(callbacks)
    return CURRENT


def declarations(model):
    out = {}
    for name in MODULES:
        obj = getattr(model, name, None)
        if obj is None:
            continue
        d = getattr(obj, 'ParameterDict', None)
        if not isinstance(d, dict):
            continue
        out[name] = {'class': type(obj).__name__, 'params': {k: snap_param(v) for k, v in d.items() if _is_param(v)}}
    return out


def hook(stage, model):
    rec = CURRENT
    rec.stages.append(stage)
    for cb in rec.callbacks:
        cb(stage, model)
    if stage == 'after_read':
        if rec.want_read:
            rec.read = declarations(model)
        if rec.stop_after_read:
            raise StopAfterRead()
    elif stage == 'after_calculate':
        if rec.want_snap:
            rec.snap = snapshot(model)
