"""Single-run oracles over the after_calculate snapshot: C01 (levelized cost), C03 (cost roll-up),
C04 (cash flow / metrics), C16 (schedules and adjustments as they appear in a run)."""
import math

import numpy as np

from .ref import econ as R
from .verdict import close, first_diff

COGEN = (31, 32, 41, 42, 51, 52)


def _iv(p):
    v = p.value
    return getattr(v, 'int_value', v)


def _lst(v):
    if isinstance(v, np.ndarray):
        return [float(x) for x in v.tolist()]
    if isinstance(v, (list, tuple)):
        return [float(x) for x in v]
    return None


def rates(ec):
    return {'FCR': ec.FCR.value, 'discountrate': ec.discountrate.value, 'inflrateconstruction': ec.inflrateconstruction.value,
            'FIB': ec.FIB.value, 'BIR': ec.BIR.value, 'EIR': ec.EIR.value, 'CTR': ec.CTR.value, 'RINFL': ec.RINFL.value,
            'PTR': ec.PTR.value, 'GTR': ec.GTR.value, 'RITC': ec.RITC.value}


RATE_INPUTS = {'Fixed Charge Rate': 'FCR', 'Discount Rate': 'discountrate', 'Inflation Rate During Construction': 'inflrateconstruction',
               'Fraction of Investment in Bonds': 'FIB', 'Inflated Bond Interest Rate': 'BIR', 'Inflated Equity Interest Rate': 'EIR',
               'Combined Income Tax Rate': 'CTR', 'Inflation Rate': 'RINFL', 'Property Tax Rate': 'PTR', 'Gross Revenue Tax Rate': 'GTR'}
RATE_ATTRS = {'FCR': 'FCR', 'discountrate': 'discountrate', 'inflrateconstruction': 'inflrateconstruction', 'FIB': 'FIB', 'BIR': 'BIR',
              'EIR': 'EIR', 'CTR': 'CTR', 'RINFL': 'RINFL', 'PTR': 'PTR', 'GTR': 'GTR'}


def config(s):
    sp, ec = s.surfaceplant, s.economics
    return {'econ': _iv(ec.econmodel), 'enduse': _iv(sp.enduse_option), 'ptype': _iv(sp.plant_type),
            'res': s.classes.get('reserv'), 'plant': s.classes.get('surfaceplant'), 'eclass': s.classes.get('economics'),
            'life': int(sp.plant_lifetime.value), 'cy': int(sp.construction_years.value),
            'addons': s.addeconomics is not None and bool(ec.DoAddOnCalculations.value),
            'sdac': s.sdacgteconomics is not None and bool(ec.DoSDACGTCalculations.value)}


# -------------------------------------------------------------------------------------------------------------- C01

def c01(mon, s):
    cfg = config(s)
    ec, sp = s.economics, s.surfaceplant
    ecls = cfg['eclass']
    if ecls == 'SUTRAEconomics':
        return _c01_sutra(mon, s)
    if ecls not in ('Economics', 'SBTEconomics'):
        mon.note('c01-skip-economics-class:' + str(ecls))
        return
    em, eu, pt, L = cfg['econ'], cfg['enduse'], cfg['ptype'], cfg['life']
    if em not in (1, 2, 3):
        mon.note('c01-skip-econ-model:' + str(em))
        return
    p = rates(ec)
    # the rates of the formula are the ones the input supplies: a rate written as a bare number (the documented unit) must be
    # the rate standing in the model when the levelized cost is computed, and it is the one the reference uses
    for pname, key in RATE_INPUTS.items():
        txt = s.input_values.get(pname)
        if txt is None or len(str(txt).split()) != 1:
            continue
        try:
            supplied = float(str(txt))
        except ValueError:
            continue
        prm = getattr(ec, RATE_ATTRS[key], None)
        if prm is None or not (float(prm.Min) <= supplied <= float(prm.Max)):
            continue
        relevant = (key == 'FCR' and em == 1) or (key == 'discountrate' and em == 2) or key == 'inflrateconstruction' or \
            (em == 3 and key not in ('FCR', 'discountrate'))
        if relevant and key != 'RITC':
            mon.eq('rate-used-as-supplied', float(p[key]), supplied, rel=1e-12, abs_=0.0,
                   mechanism='C01/rate-in-the-model-differs-from-the-rate-the-input-supplies:' + pname, supplied=supplied)
            p[key] = supplied
    CC, CO = float(ec.CCap.value), float(ec.Coam.value)
    r = float(ec.CAPEX_heat_electricity_plant_ratio.value)
    rate = float(sp.electricity_cost_to_buy.value)
    pump = [x * rate / 1e6 for x in _lst(sp.PumpingkWh.value)]
    net = _lst(sp.NetkWhProduced.value)
    heat = _lst(sp.HeatkWhProduced.value)
    want = {'LCOE': 0.0, 'LCOH': 0.0, 'LCOC': 0.0}
    key = f'm{em}/eu{eu}/pt{pt}'
    try:
        if eu == 1:
            want['LCOE'] = R.levelize(em, CC, CO, None, net, p)
        elif eu == 2 and pt == 5:
            want['LCOC'] = R.levelize(em, CC, CO, pump, _lst(sp.cooling_kWh_Produced.value), p) * R.MMBTU
        elif eu == 2 and pt == 6:
            hp = [x * rate / 1e6 for x in _lst(sp.heat_pump_electricity_kwh_used.value)]
            want['LCOH'] = R.levelize(em, CC, CO, [a + b for a, b in zip(pump, hp)], heat, p) * R.MMBTU
        elif eu == 2 and pt == 7:
            ngd = _lst(sp.annual_ng_demand.value)
            fuel = [d * float(ec.ngprice.value) / 1000.0 / float(ec.peakingboilerefficiency.value) for d in ngd]
            dem = sp.annual_heating_demand.value
            E = [float(dem) * 1e6] * L if np.ndim(dem) == 0 else [float(x) * 1e6 for x in dem]
            want['LCOH'] = R.levelize(em, CC, CO, [a + b for a, b in zip(pump, fuel)], E, p) * R.MMBTU
        elif eu == 2:
            want['LCOH'] = R.levelize(em, CC, CO, pump, heat, p) * R.MMBTU
        elif eu in COGEN:
            want['LCOE'] = R.levelize(em, CC * r, CO * r, None, net, p)
            # documented irregularity (DESIGN 4/C01): only the Standard model charges pumping electricity to heat
            x = pump if em == 2 else None
            want['LCOH'] = R.levelize(em, CC * (1 - r), CO * (1 - r), x, heat, p) * R.MMBTU
        else:
            mon.note('c01-skip-enduse:' + str(eu))
            return
    except (ZeroDivisionError, OverflowError, ValueError) as ex:
        mon.inconclusive('levelized', type(ex).__name__)
        return
    mon.note('c01-cell:' + key)
    for name in ('LCOE', 'LCOH', 'LCOC'):
        got = float(getattr(ec, name).value)
        w = want[name]
        if not math.isfinite(w) or not math.isfinite(got):
            if not (math.isfinite(w) or math.isfinite(got)):
                mon.note('c01-both-nonfinite')
                continue
        mech = None
        ok = close(got, w, 1e-9, 1e-12)
        if not ok:
            mech = _c01_mechanism(cfg, name, got, w, s, pump, p)
        mon.check('levelized:' + name, ok, mechanism=mech, cell=key, name=name, got=got, want=w,
                  CCap=CC, Coam=CO, life=L, addons=cfg['addons'])
    # non-triviality marker: energy varies from year to year
    series = net if eu == 1 or eu in COGEN else heat
    if series and L > 1 and max(series) - min(series) > 1e-9 * max(1.0, abs(max(series))):
        mon.note('c01-nontrivial')


def _c01_mechanism(cfg, name, got, want, s, pump, p):
    """Key a disagreement by mechanism (never by values)."""
    ec, sp = s.economics, s.surfaceplant
    em, eu, pt = cfg['econ'], cfg['enduse'], cfg['ptype']
    if eu == 2 and pt == 7 and name == 'LCOH' and em in (2, 3):
        # would the code's figure be explained by peaking fuel cost computed without boiler efficiency?
        try:
            ngd = _lst(sp.annual_ng_demand.value)
            fuel = [d * float(ec.ngprice.value) / 1000.0 for d in ngd]
            dem = sp.annual_heating_demand.value
            L = cfg['life']
            E = [float(dem) * 1e6] * L if np.ndim(dem) == 0 else [float(x) * 1e6 for x in dem]
            alt = R.levelize(em, float(ec.CCap.value), float(ec.Coam.value), [a + b for a, b in zip(pump, fuel)], E, p) * R.MMBTU
            if close(got, alt, 1e-9) and not ec.oamtotalfixed.Valid:
                return 'C01/district-heating-LCOH-peaking-fuel-without-boiler-efficiency'
        except Exception:
            pass
    if eu == 2 and em == 1 and pt in (1, 2, 3, 4, 8) and name == 'LCOH':
        try:
            alt = R.levelize(em, float(ec.CCap.value), float(ec.Coam.value), None, _lst(sp.HeatkWhProduced.value), p) * R.MMBTU
            if close(got, alt, 1e-9):
                return 'C01/FCR-direct-use-LCOH-omits-pumping-cost-for-power-plant-type-codes'
        except Exception:
            pass
    return f'C01/levelized-mismatch/{name}/m{em}/eu{eu}/pt{pt}'


def _c01_sutra(mon, s):
    ec, sp = s.economics, s.surfaceplant
    L = int(sp.plant_lifetime.value)
    CC = float(ec.CCap.value)
    co = ec.Coam.value
    unit = (ec.Coam.CurrentUnits or '').upper()
    scale = 1e-3 if unit.startswith('KUSD') else 1.0      # KUSD/yr -> MUSD/yr
    CO_t = [float(x) * scale for x in (co if np.ndim(co) else [co] * L)]
    E = [float(x) * 1e6 for x in _lst(sp.AnnualTotalHeatProduced.value)]
    p = rates(ec)
    try:
        want = R.levelize(2, CC, 0.0, CO_t, E, p)
    except (ZeroDivisionError, OverflowError):
        mon.inconclusive('levelized', 'sutra-denominator')
        return
    got = float(ec.LCOH.value)
    mon.note('c01-cell:sutra')
    mech = 'C01/levelized-mismatch/LCOH/sutra'
    if not close(got, want, 1e-9) and scale != 1.0:
        # the known defect has a recognisable signature: the same formula with the KUSD/yr O&M series added unconverted to the
        # MUSD capital cost; anything else is a different violation
        try:
            f13 = R.levelize(2, CC, 0.0, [x / scale for x in CO_t], E, p)
        except (ZeroDivisionError, OverflowError):
            f13 = None
        if f13 is not None and close(got, f13, 1e-9):
            mech = 'C01/SUTRA-LCOH-adds-KUSD-O&M-to-MUSD-capital'
    mon.check('levelized:LCOH', close(got, want, 1e-9), mechanism=mech, cell='sutra', got=got, want=want, coam_unit=ec.Coam.CurrentUnits)


# -------------------------------------------------------------------------------------------------------------- C03

def c03(mon, s):
    cfg = config(s)
    ec, sp, wb = s.economics, s.surfaceplant, s.wellbores
    if cfg['eclass'] not in ('Economics', 'SBTEconomics'):
        mon.note('c03-skip-economics-class:' + str(cfg['eclass']))
        return
    sbt = cfg['eclass'] == 'SBTEconomics'
    eu, pt, L = cfg['enduse'], cfg['ptype'], cfg['life']
    nprod, ninj = int(wb.nprod.value), int(wb.ninj.value)
    comp = {k: float(getattr(ec, k).value) for k in ('Cwell', 'Cstim', 'Cplant', 'Cgath', 'Cexpl', 'Cpiping')}
    dh = float(ec.dhdistrictcost.value) if ec.has('dhdistrictcost') and np.ndim(ec.dhdistrictcost.value) == 0 else 0.0
    CCap = float(ec.CCap.value)
    # ---- capital total
    if ec.totalcapcost.Valid:
        pre = float(ec.totalcapcost.value)
        mon.note('c03-capex-user-total')
    else:
        pre = comp['Cexpl'] + comp['Cwell'] + comp['Cstim'] + comp['Cgath'] + comp['Cplant'] + comp['Cpiping'] + \
            (dh if pt == 7 else 0.0)
        mon.note('c03-capex-components')
    itc = float(ec.RITC.value) * pre if ec.RITC.Provided else 0.0
    want = pre - itc + float(ec.FlatLicenseEtc.value) - float(ec.OtherIncentives.value) - float(ec.TotalGrant.value)
    mon.eq('capex-total', CCap, want, rel=1e-9, abs_=1e-10, mechanism='C03/capex-total-not-sum-of-parts',
           components=comp, dh=dh, itc=itc, user_total=bool(ec.totalcapcost.Valid))
    if ec.RITC.Provided:
        mon.eq('itc-value', float(ec.RITCValue.value), itc, rel=1e-9, abs_=1e-12, mechanism='C03/itc-value')
    # ---- user-supplied components appear unchanged
    for pname, out in (('ccstimfixed', 'Cstim'), ('ccgathfixed', 'Cgath'), ('ccplantfixed', 'Cplant')):
        prm = getattr(ec, pname)
        if prm.Valid and prm.Provided:
            mon.eq('user-component-used', comp[out], float(prm.value), mechanism='C03/user-fixed-component-not-used:' + out,
                   which=out)
    if ec.ccexplfixed.Valid and ec.ccexplfixed.Provided and not ec.totalcapcost.Valid:
        mon.eq('user-component-used', comp['Cexpl'], float(ec.ccexplfixed.value),
               mechanism='C03/user-fixed-component-not-used:Cexpl', which='Cexpl')
    # ---- end-use equipment figures supplied directly (absorption chiller, heat pump): the figure the user wrote is the one in use
    if eu == 2 and not sbt:
        for pname, attr, need_pt, when in (('Absorption Chiller Capital Cost', 'chillercapex', 5, not ec.ccplantfixed.Valid and not ec.totalcapcost.Valid),
                                           ('Heat Pump Capital Cost', 'heatpumpcapex', 6, not ec.ccplantfixed.Valid and not ec.totalcapcost.Valid),
                                           ('Absorption Chiller O&M Cost', 'chilleropex', 5, not ec.oamtotalfixed.Valid)):
            txt = s.input_values.get(pname)
            if pt != need_pt or txt is None or not when or not ec.has(attr):
                continue
            parts = str(txt).split()
            if len(parts) != 1:
                continue                                    # written with a unit: C06's business
            try:
                supplied = float(parts[0])
            except ValueError:
                continue
            if supplied < 0:
                continue                                    # the documented "not provided" sentinel
            mon.eq('user-component-used', float(getattr(ec, attr).value), supplied, rel=1e-12,
                   mechanism='C03/user-fixed-component-not-used:' + attr, which=pname, supplied=supplied)
    # ---- "surface plant including end-use equipment": with a correlated plant cost the reported plant figure is the
    # direct-use part (250 $/kWth of peak extracted heat x 1.15 contingency x 1.12 indirect x adjustment factor) plus the
    # reported end-use equipment figure (absorption chiller, heat pump, peaking boiler)
    if eu == 2 and not sbt and pt in (5, 6, 7) and not ec.ccplantfixed.Valid and not ec.totalcapcost.Valid \
            and cfg['plant'] in ('SurfacePlantAbsorptionChiller', 'SurfacePlantHeatPump', 'SurfacePlantDistrictHeating'):
        attr = {5: 'chillercapex', 6: 'heatpumpcapex', 7: 'peakingboilercost'}[pt]
        if ec.has(attr) and np.ndim(getattr(ec, attr).value) == 0:
            equip = float(getattr(ec, attr).value)
            direct = 1.12 * 1.15 * float(ec.ccplantadjfactor.value) * 250e-6 * float(np.max(np.asarray(sp.HeatExtracted.value, dtype=float))) * 1000.0
            mon.eq('plant-includes-end-use-equipment', comp['Cplant'], direct + equip, rel=1e-9, abs_=1e-12,
                   mechanism='C03/surface-plant-cost-does-not-include-end-use-equipment:' + attr, equipment=equip, direct_use_part=direct)
    # ---- wellfield
    c1p, c1i = float(ec.cost_one_production_well.value), float(ec.cost_one_injection_well.value)
    lat = float(ec.cost_lateral_section.value) if ec.has('cost_lateral_section') else 0.0
    if ec.per_production_well_cost.Valid:
        mon.eq('user-component-used', c1p, float(ec.per_production_well_cost.value),
               mechanism='C03/user-fixed-well-cost-not-used', which='production well')
        want_inj = float(ec.per_injection_well_cost.value) if ec.per_injection_well_cost.Provided else c1p
        mon.eq('user-component-used', c1i, want_inj, mechanism='C03/user-fixed-well-cost-not-used', which='injection well')
        mon.eq('wellfield', comp['Cwell'], c1p * nprod + c1i * ninj, mechanism='C03/wellfield-not-wells-times-cost',
               fixed=True)
    elif sbt:
        # closed-loop economics: the 5 % indirect-cost factor is already inside each reported per-well / lateral / junction cost
        junc = float(ec.cost_to_junction_section.value) if ec.has('cost_to_junction_section') else 0.0
        mon.note('c03-sbt-wellfield')
        mon.eq('wellfield', comp['Cwell'], c1p * nprod + c1i * ninj + lat + junc, rel=1e-9,
               mechanism='C03/wellfield-not-wells-times-cost:SBT', fixed=False, c1p=c1p, c1i=c1i, nprod=nprod, ninj=ninj,
               lat=lat, junction=junc)
    else:
        mon.eq('wellfield', comp['Cwell'], 1.05 * (c1p * nprod + c1i * ninj + lat), rel=1e-9,
               mechanism='C03/wellfield-not-wells-times-cost', fixed=False, c1p=c1p, c1i=c1i, nprod=nprod, ninj=ninj, lat=lat)
        if ec.per_injection_well_cost.Provided and ec.per_injection_well_cost.Valid and ninj > 0:
            # the user supplied the injection-well cost directly: exactly that figure must be used in its place
            mon.eq('user-component-used', c1i, float(ec.per_injection_well_cost.value),
                   mechanism='C03/injection-well-cost-ignored-without-production-well-cost', which='injection well',
                   supplied=float(ec.per_injection_well_cost.value))
    # ---- O&M total
    Coam = float(ec.Coam.value)
    if ec.oamtotalfixed.Valid:
        base = float(ec.oamtotalfixed.value)
        mon.note('c03-opex-user-total')
    else:
        parts = {k: float(getattr(ec, k).value) for k in ('Coamwell', 'Coamplant', 'Coamwater')}
        chill = float(ec.chilleropex.value) if pt == 5 else 0.0
        dho = float(ec.dhdistrictoandmcost.value) if pt == 7 else 0.0
        base = parts['Coamwell'] + parts['Coamplant'] + parts['Coamwater'] + chill + dho
        mon.note('c03-opex-components')
        for pname, out in (('oamwellfixed', 'Coamwell'), ('oamplantfixed', 'Coamplant'), ('oamwaterfixed', 'Coamwater')):
            prm = getattr(ec, pname)
            if prm.Valid and prm.Provided:
                mon.eq('user-component-used', parts[out], float(prm.value),
                       mechanism='C03/user-fixed-component-not-used:' + out, which=out)
    redrill = int(wb.redrill.value) if wb.has('redrill') and wb.redrill.value is not None else 0
    if redrill > 0:
        base += (comp['Cwell'] + comp['Cstim']) * redrill / L
        mon.note('c03-redrilling')
    want = base + float(ec.AnnualLicenseEtc.value) - float(ec.TaxRelief.value)
    mon.eq('opex-total', Coam, want, rel=1e-9, abs_=1e-10, mechanism='C03/opex-total-not-sum-of-parts', redrill=redrill)


# -------------------------------------------------------------------------------------------------------------- C04

def _revenue_products(s, cfg):
    """(energy series, operating-year price series) per product sold, from the snapshot."""
    ec, sp = s.economics, s.surfaceplant
    cy, L = cfg['cy'], cfg['life']
    eu, pt = cfg['enduse'], cfg['ptype']
    out = []

    def price(p):
        v = _lst(p.value)
        return v[cy:] if len(v) == cy + L else v

    if eu == 1 or eu in COGEN:
        out.append(('electricity', _lst(sp.NetkWhProduced.value), price(ec.ElecPrice), _lst(ec.ElecRevenue.value)))
    if (eu == 2 and pt != 5) or eu in COGEN:
        out.append(('heat', _lst(sp.HeatkWhProduced.value), price(ec.HeatPrice), _lst(ec.HeatRevenue.value)))
    if eu == 2 and pt == 5:
        out.append(('cooling', _lst(sp.cooling_kWh_Produced.value), price(ec.CoolingPrice), _lst(ec.CoolingRevenue.value)))
    return out


def c04(mon, s):
    cfg = config(s)
    ec, sp = s.economics, s.surfaceplant
    if cfg['eclass'] not in ('Economics', 'SBTEconomics'):
        mon.note('c04-skip-economics-class:' + str(cfg['eclass']))
        return
    cy, L = cfg['cy'], cfg['life']
    CCap, Coam = float(ec.CCap.value), float(ec.Coam.value)
    cash = _lst(ec.TotalRevenue.value)
    cum = _lst(ec.TotalCummRevenue.value)
    if cash is None or cum is None:
        mon.inconclusive('cashflow', 'series-missing')
        return
    mon.check('series-length', len(cash) == cy + L and len(cum) == cy + L, mechanism='C04/series-length',
              n=len(cash), want=cy + L)
    if len(cash) != cy + L:
        return
    # expected yearly cash flow
    want = [-CCap / cy] * cy + [0.0] * L
    for name, energy, price, rev in _revenue_products(s, cfg):
        if len(energy) != L or len(price) != L:
            mon.bad('revenue', mechanism='C04/revenue-series-length', product=name, ne=len(energy), np_=len(price))
            continue
        exp_rev = [0.0] * cy + [e * pr / 1e6 for e, pr in zip(energy, price)]
        mon.seq('revenue', rev, exp_rev, rel=1e-9, abs_=1e-12, mechanism='C04/product-revenue-not-energy-times-price',
                product=name)
        for t in range(L):
            want[cy + t] += exp_rev[cy + t]
    if ec.DoCarbonCalculations.value:
        carb = _lst(ec.CarbonRevenue.value)
        mon.note('c04-carbon')
        pr = _lst(ec.CarbonPrice.value)
        pr = pr[cy:] if len(pr) == cy + L else pr
        eu = cfg['enduse']
        net = _lst(sp.NetkWhProduced.value)
        heat = _lst(sp.HeatkWhProduced.value)
        exp = [0.0] * cy
        for t in range(L):
            e_el = net[t] if eu != 2 else 0.0
            e_h = heat[t] if eu != 1 else 0.0
            lbs = e_el * float(ec.GridCO2Intensity.value) + e_h * float(ec.NaturalGasCO2Intensity.value)
            exp.append(lbs * pr[t] / 1e6)
        mon.seq('revenue', carb, exp, rel=1e-9, abs_=1e-12, mechanism='C04/carbon-revenue', product='carbon')
        for t in range(L):
            want[cy + t] += exp[cy + t]
    for t in range(L):
        want[cy + t] -= Coam
    mon.seq('cashflow', cash, want, rel=1e-9, abs_=1e-9, mechanism='C04/cashflow-not-revenue-minus-opex-capex', cy=cy, life=L)
    run = []
    acc = 0.0
    for v in cash:
        acc += v
        run.append(acc)
    mon.seq('cumulative', cum, run, rel=1e-9, abs_=1e-9, mechanism='C04/cumulative-not-running-sum')
    # metrics
    rate = float(ec.FixedInternalRate.value) / 100.0
    disc_first = bool(ec.discount_initial_year_cashflow.value)
    mon.note('c04-npv-convention:' + ('excel' if disc_first else 'plain'))
    if any(v != v for v in cash):
        mon.note('c04-cash-flow-series-with-nan')          # no figure to compare (a run whose energy came out NaN)
        return
    npv_want = R.npv(rate, cash, disc_first)
    scale = math.fsum(abs(v) for v in cash) or 1.0
    mon.check('npv', abs(float(ec.ProjectNPV.value) - npv_want) <= 1e-9 * scale, mechanism='C04/npv-not-of-reported-series',
              got=float(ec.ProjectNPV.value), want=npv_want, rate=rate, excel=disc_first)
    irr = float(ec.ProjectIRR.value)
    if irr != 0.0 and math.isfinite(irr):
        res, tscale = _irr_residual(irr / 100.0, cash)
        mon.check('irr', math.isfinite(res) and abs(res) <= 1e-6 * tscale, mechanism='C04/irr-does-not-zero-npv', irr=irr,
                  residual=res, scale=tscale)
        mon.note('c04-irr-nonzero')
    else:
        mon.note('c04-irr-zero-or-nan')
    if CCap != 0:
        mon.eq('vir', float(ec.ProjectVIR.value), 1.0 + npv_want / CCap, rel=1e-9, abs_=1e-9, mechanism='C04/vir')
    den = CCap + Coam * L
    if den != 0:
        mon.eq('moic', float(ec.ProjectMOIC.value), run[-1] / den, rel=1e-9, abs_=1e-9, mechanism='C04/moic')
    # payback
    pb = float(ec.ProjectPaybackPeriod.value)
    crossings = [i for i in range(1, len(cum)) if cum[i] > 0 >= cum[i - 1]]
    # index 0 compares with the last element in the code under test (wrap-around); a positive first entry needs CCap<0
    if crossings:
        ok = any(i <= pb <= i + 1 for i in crossings)
        mon.check('payback', ok, mechanism='C04/payback-not-in-crossing-year', payback=pb, crossings=crossings[:5])
        mon.note('c04-payback-finite')
    else:
        if cum and cum[0] > 0:
            mon.note('c04-payback-positive-from-start')
        else:
            mon.check('payback', pb == 0.0, mechanism='C04/payback-reported-but-never-positive', payback=pb)
            mon.note('c04-payback-never')
    if cfg['addons']:
        _c04_addons(mon, s, cfg)


def _irr_residual(r, series):
    """NPV of the series at rate r, and the magnitude of its terms (the residual is judged relative to the terms, so a
    root close to -100 %, where the discount factors explode, is not misjudged)."""
    if not (r > -1.0):
        return float('nan'), 1.0
    try:
        terms = [v / (1.0 + r) ** k for k, v in enumerate(series)]
    except (OverflowError, ZeroDivisionError):
        return float('nan'), 1.0
    return math.fsum(terms), (math.fsum(abs(t) for t in terms) or 1.0)


def _c04_addons(mon, s, cfg):
    ec, sp, ae = s.economics, s.surfaceplant, s.addeconomics
    cy, L = cfg['cy'], cfg['life']
    eu = cfg['enduse']
    pcf = _lst(ae.ProjectCashFlow.value)
    acf = _lst(ae.AddOnCashFlow.value)
    if pcf is None or len(pcf) != cy + L:
        mon.bad('addon-cashflow', mechanism='C04/addon-series-length', n=None if pcf is None else len(pcf))
        return
    el = float(ae.AddOnElecGainedTotalPerYear.value)
    ht = float(ae.AddOnHeatGainedTotalPerYear.value)
    profit = float(ae.AddOnProfitGainedTotalPerYear.value)
    opex = float(ae.AddOnOPEXTotalPerYear.value)
    capex = float(ae.AddOnCAPEXTotal.value)
    ep = _lst(ec.ElecPrice.value)[cy:]
    hp = _lst(ec.HeatPrice.value)[cy:]
    net = _lst(sp.NetkWhProduced.value)
    heat = _lst(sp.HeatkWhProduced.value)
    adj_capex = float(ec.CCap.value) + capex
    want_a = [-capex / cy] * cy
    want_p = [-adj_capex / cy] * cy
    for t in range(L):
        a_el = el if eu != 2 else 0.0
        a_h = ht if eu != 1 else 0.0
        rev = a_el * ep[t] / 1e6 + a_h * hp[t] / 1e6 + profit - opex
        want_a.append(rev)
        p_el = net[t] if eu != 2 else 0.0
        p_h = heat[t] if eu != 1 else 0.0
        want_p.append(rev + (p_el * ep[t] + p_h * hp[t]) / 1e6 - float(ec.Coam.value))
    mon.seq('addon-cashflow', acf, want_a, rel=1e-9, abs_=1e-9, mechanism='C04/addon-cashflow')
    mech = 'C04/addon-project-cashflow'
    if cfg['sdac'] and first_diff(pcf, want_p, 1e-9, 1e-9) is not None:
        # recognisable signature: the add-on module ran before the S-DAC-GT module took its electricity and heat out of the
        # energy sold, so its project cash flow is built on the energy before capture consumption
        sd = s.sdacgteconomics
        ca = _lst(sd.CarbonExtractedAnnually.value)
        alt = list(want_p[:cy])
        for t in range(L):
            rev = (el if eu != 2 else 0.0) * ep[t] / 1e6 + (ht if eu != 1 else 0.0) * hp[t] / 1e6 + profit - opex
            p_el = (net[t] + ca[t] * float(sd.elec.value)) if eu != 2 else 0.0
            p_h = (heat[t] + ca[t] * float(sd.therm.value)) if eu != 1 else 0.0
            alt.append(rev + (p_el * ep[t] + p_h * hp[t]) / 1e6 - float(ec.Coam.value))
        if first_diff(pcf, alt, 1e-9, 1e-9) is None:
            mech = 'C04/addon-project-cashflow-uses-energy-before-S-DAC-GT-consumption'
    mon.seq('addon-cashflow', pcf, want_p, rel=1e-9, abs_=1e-9, mechanism=mech)
    run = np.cumsum(pcf).tolist()
    mon.seq('addon-cumulative', _lst(ae.ProjectCummCashFlow.value), run, rel=1e-9, abs_=1e-9,
            mechanism='C04/addon-cumulative-not-running-sum')
    rate = float(ae.FixedInternalRate.value) / 100.0
    disc_first = bool(ae.discount_initial_year_cashflow.value)
    scale = math.fsum(abs(v) for v in pcf) or 1.0
    if any(v != v for v in pcf):
        mon.note('c04-cash-flow-series-with-nan')
        return
    npv_want = R.npv(rate, pcf, disc_first)
    mon.check('addon-npv', abs(float(ae.ProjectNPV.value) - npv_want) <= 1e-9 * scale, mechanism='C04/addon-npv',
              got=float(ae.ProjectNPV.value), want=npv_want)
    irr = float(ae.ProjectIRR.value)
    if irr != 0.0 and math.isfinite(irr):
        unit = ae.ProjectIRR.CurrentUnits
        # the reported unit is '%': a reported IRR of x % must zero the NPV at rate x/100
        r = irr / 100.0 if unit == '%' else irr
        res, tscale = _irr_residual(r, pcf)
        mon.check('addon-irr', math.isfinite(res) and abs(res) <= 1e-6 * tscale,
                  mechanism='C04/addon-irr-fraction-reported-as-percent', irr=irr, unit=unit, residual=res)
        mon.note('c04-addon-irr-nonzero')
    if adj_capex != 0:
        mon.eq('addon-vir', float(ae.ProjectVIR.value), 1.0 + npv_want / adj_capex, rel=1e-9, abs_=1e-9,
               mechanism='C04/addon-vir')
    den = adj_capex + (float(ec.Coam.value) + opex) * L
    if den != 0:
        mon.eq('addon-moic', float(ae.ProjectMOIC.value), run[-1] / den, rel=1e-9, abs_=1e-9, mechanism='C04/addon-moic')


# -------------------------------------------------------------------------------------------------------------- C16

def _c16_adjustments(mon, s, cfg):
    """ITC lowers capital cost by exactly rate x cost; grants, incentives, fees, tax relief enter by their amounts."""
    ec, wb = s.economics, s.wellbores
    if cfg['eclass'] not in ('Economics', 'SBTEconomics'):
        return
    pt, L = cfg['ptype'], cfg['life']
    if ec.totalcapcost.Valid:
        pre = float(ec.totalcapcost.value)
    else:
        pre = sum(float(getattr(ec, k).value) for k in ('Cexpl', 'Cwell', 'Cstim', 'Cgath', 'Cplant', 'Cpiping'))
        if pt == 7:
            pre += float(ec.dhdistrictcost.value)
    itc = float(ec.RITC.value) * pre if ec.RITC.Provided else 0.0
    if ec.RITC.Provided:
        mon.eq('itc', float(ec.RITCValue.value), itc, rel=1e-9, abs_=1e-12, mechanism='C16/itc-not-rate-times-cost',
               rate=float(ec.RITC.value), cost=pre)
    want = pre - itc + float(ec.FlatLicenseEtc.value) - float(ec.OtherIncentives.value) - float(ec.TotalGrant.value)
    mon.eq('capital-adjustments', float(ec.CCap.value), want, rel=1e-9, abs_=1e-10,
           mechanism='C16/capital-cost-adjustments-not-by-stated-amounts', itc=itc, fees=float(ec.FlatLicenseEtc.value),
           incentives=float(ec.OtherIncentives.value), grants=float(ec.TotalGrant.value))
    if any(float(getattr(ec, k).value) != 0 for k in ('FlatLicenseEtc', 'OtherIncentives', 'TotalGrant')) or ec.RITC.Provided:
        mon.note('c16-capital-adjustment-active')
    if ec.oamtotalfixed.Valid:
        base = float(ec.oamtotalfixed.value)
    else:
        base = sum(float(getattr(ec, k).value) for k in ('Coamwell', 'Coamplant', 'Coamwater'))
        if pt == 5:
            base += float(ec.chilleropex.value)
        if pt == 7:
            base += float(ec.dhdistrictoandmcost.value)
    redrill = int(wb.redrill.value) if wb.has('redrill') and wb.redrill.value is not None else 0
    if redrill > 0:
        base += (float(ec.Cwell.value) + float(ec.Cstim.value)) * redrill / L
    mon.eq('opex-adjustments', float(ec.Coam.value), base + float(ec.AnnualLicenseEtc.value) - float(ec.TaxRelief.value),
           rel=1e-9, abs_=1e-10, mechanism='C16/annual-cost-adjustments-not-by-stated-amounts',
           fees=float(ec.AnnualLicenseEtc.value), relief=float(ec.TaxRelief.value))
    if float(ec.AnnualLicenseEtc.value) != 0 or float(ec.TaxRelief.value) != 0:
        mon.note('c16-annual-adjustment-active')


def c16_run(mon, s):
    """Schedules and adjustments as they appear inside a full run (the builders themselves are exercised directly and
    exhaustively by gxv.props.c16)."""
    cfg = config(s)
    ec = s.economics
    if cfg['eclass'] not in ('Economics', 'SBTEconomics'):
        return
    _c16_adjustments(mon, s, cfg)
    cy, L = cfg['cy'], cfg['life']
    infl = float(ec.RINFL.value)
    dur = int(ec.PTCDuration.value)
    adj = bool(ec.PTCInflationAdjusted.value)
    any_ptc = any(getattr(ec, n).Provided for n in ('PTCElec', 'PTCHeat', 'PTCCooling'))
    if dur > L:
        if any_ptc:
            mon.note('c16-duration-beyond-lifetime')
            return
        dur = L
    for prod, sp_, ep_, t0_, rt_, ptc_, unit_factor in (
            ('Elec', 'ElecStartPrice', 'ElecEndPrice', 'ElecEscalationStart', 'ElecEscalationRate', 'PTCElec', 1.0),
            ('Heat', 'HeatStartPrice', 'HeatEndPrice', 'HeatEscalationStart', 'HeatEscalationRate', 'PTCHeat', None),
            ('Cooling', 'CoolingStartPrice', 'CoolingEndPrice', 'CoolingEscalationStart', 'CoolingEscalationRate',
             'PTCCooling', None),
            ('Carbon', 'CarbonStartPrice', 'CarbonEndPrice', 'CarbonEscalationStart', 'CarbonEscalationRate', None, 1.0)):
        series = _lst(getattr(ec, prod + 'Price').value)
        if series is None or len(series) != cy + L:
            mon.bad('run-price-length', mechanism='C16/price-series-length', product=prod,
                    n=None if series is None else len(series), want=cy + L)
            continue
        ptc_val = raw_ptc = 0.0
        if ptc_ is not None:
            pp = getattr(ec, ptc_)
            if pp.Provided:
                ptc_val = raw_ptc = float(pp.value)
                if unit_factor is None:
                    # PTC heat/cooling are declared in USD/MMBTU; the price is USD/kWh: 1 MMBTU = 1055.056e6 J (pint's BTU)
                    ptc_val = ptc_val * 3.6e6 / 1055.056e6 if (pp.CurrentUnits or '').upper().endswith('MMBTU') else ptc_val
        ptc = R.ptc_schedule(L, dur, ptc_val, adj, infl)
        want = [0.0] * cy + R.price_schedule(L, float(getattr(ec, sp_).value), float(getattr(ec, ep_).value),
                                             int(getattr(ec, t0_).value), float(getattr(ec, rt_).value), ptc)
        mech = 'C16/run-price-schedule:' + prod
        if ptc_ in ('PTCHeat', 'PTCCooling') and ptc_val != 0.0 and raw_ptc != ptc_val:
            # the (fixed) F9 defect has a recognisable signature: the unconverted USD/MMBTU number added to the USD/kWh price
            f9 = [0.0] * cy + R.price_schedule(L, float(getattr(ec, sp_).value), float(getattr(ec, ep_).value),
                                               int(getattr(ec, t0_).value), float(getattr(ec, rt_).value),
                                               R.ptc_schedule(L, dur, raw_ptc, adj, infl))
            if len(f9) == len(series) and all(abs(a - b) <= 1e-9 * max(abs(a), abs(b), 1e-12) for a, b in zip(series, f9)):
                mech = 'C16/heat-cooling-PTC-USD-per-MMBTU-added-to-USD-per-kWh-price'
        mon.seq('run-price', series, want, rel=1e-9, abs_=1e-12, mechanism=mech, product=prod, cy=cy, life=L,
                ptc=ptc_val, dur=dur)
        if any(series[:cy]):
            mon.bad('construction-years-zero', mechanism='C16/nonzero-price-in-construction-year', product=prod)
        else:
            mon.ok('construction-years-zero')
