"""Observer used inside the forked Monte-Carlo workers (C13/C14): per-pid event log at the client boundary.

The repo hook calls hook(stage, model) in whichever process runs GEOPHIRESv3.main; each forked worker appends to its
own file $GXV_MC_LOG_DIR/<pid>.jsonl, so the monitor's state needs no cross-process lock."""
import json
import os
import sys
import time


def _log(rec):
    d = os.environ.get('GXV_MC_LOG_DIR')
    if not d:
        return
    rec['pid'] = os.getpid()
    rec['t'] = time.monotonic()
    with open(os.path.join(d, f'{os.getpid()}.jsonl'), 'a', encoding='utf-8') as f:
        f.write(json.dumps(rec) + '\n')


def _tail(path, n):
    try:
        with open(path, encoding='utf-8') as f:
            lines = f.read().split('\n')
        lines = [ln for ln in lines if ln.strip()]
        return lines[-n:] if n else []
    except OSError:
        return None


def hook(stage, model):
    if stage == 'begin':
        n = int(os.environ.get('GXV_MC_NINPUTS', '0'))
        path = str(sys.argv[1]) if len(sys.argv) > 1 else None
        _log({'stage': 'begin', 'input': path, 'tail': _tail(path, n)})
    elif stage in ('after_print', 'after_json'):
        _log({'stage': stage, 'input': str(sys.argv[1]) if len(sys.argv) > 1 else None})


def hip_wrap():
    """HIP-RA-X has no hook: wrap its PrintOutputs from outside (inherited by forked workers)."""
    import hip_ra_x.hip_ra_x as H
    if getattr(H.HIP_RA_X, '_gxv_wrapped', False):
        return
    orig_read = H.HIP_RA_X.read_parameters
    orig_print = H.HIP_RA_X.PrintOutputs

    def read_parameters(self, *a, **k):
        n = int(os.environ.get('GXV_MC_NINPUTS', '0'))
        path = str(sys.argv[1]) if len(sys.argv) > 1 else None
        _log({'stage': 'begin', 'input': path, 'tail': _tail(path, n)})
        return orig_read(self, *a, **k)

    def PrintOutputs(self, *a, **k):
        out = orig_print(self, *a, **k)
        _log({'stage': 'after_print', 'input': str(sys.argv[1]) if len(sys.argv) > 1 else None})
        return out

    H.HIP_RA_X.read_parameters = read_parameters
    H.HIP_RA_X.PrintOutputs = PrintOutputs
    H.HIP_RA_X._gxv_wrapped = True
