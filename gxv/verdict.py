"""Three-valued verdict bookkeeping: per-clause evaluation counters, violations with witnesses and mechanism keys."""
import collections
import json
import math


def close(a, b, rel=1e-9, abs_=1e-12):
    try:
        a = float(a)
        b = float(b)
    except (TypeError, ValueError):
        return False
    if math.isnan(a) or math.isnan(b):
        return math.isnan(a) and math.isnan(b)
    if math.isinf(a) or math.isinf(b):
        return a == b
    return abs(a - b) <= abs_ + rel * max(abs(a), abs(b))


def allclose(xs, ys, rel=1e-9, abs_=1e-12):
    xs = list(xs)
    ys = list(ys)
    if len(xs) != len(ys):
        return False
    return all(close(x, y, rel, abs_) for x, y in zip(xs, ys))


def first_diff(xs, ys, rel=1e-9, abs_=1e-12):
    xs = list(xs)
    ys = list(ys)
    if len(xs) != len(ys):
        return {'len_a': len(xs), 'len_b': len(ys)}
    for i, (x, y) in enumerate(zip(xs, ys)):
        if not close(x, y, rel, abs_):
            return {'index': i, 'a': _f(x), 'b': _f(y)}
    return None


def _f(x):
    try:
        return float(x)
    except Exception:
        return repr(x)


def jsonable(x, depth=0):
    import numpy as np
    if isinstance(x, (str, int, bool)) or x is None:
        return x
    if isinstance(x, float):
        return x if math.isfinite(x) else repr(x)
    if isinstance(x, np.generic):
        return jsonable(x.item())
    if isinstance(x, np.ndarray):
        x = x.tolist()
    if isinstance(x, dict):
        return {str(k): jsonable(v, depth + 1) for k, v in list(x.items())[:60]}
    if isinstance(x, (list, tuple, set)):
        x = list(x)
        if len(x) > 24:
            return [jsonable(v, depth + 1) for v in x[:12]] + ['...%d more' % (len(x) - 12)]
        return [jsonable(v, depth + 1) for v in x]
    return repr(x)


class Mon:
    """Monitor state for one property inside one job (or merged across jobs in the parent)."""

    def __init__(self, prop):
        self.prop = prop
        self.evals = collections.Counter()       # clause -> evaluations
        self.viols = []                          # dicts: clause, mechanism, witness
        self.notes = collections.Counter()       # free counters (branches seen, skipped reasons, ...)
        self.incon = collections.Counter()       # clause -> inconclusive evaluations (reference failed, ...)

    def ok(self, clause, n=1):
        self.evals[clause] += n

    def bad(self, clause, mechanism=None, **witness):
        self.evals[clause] += 1
        self.viols.append({'property': self.prop, 'clause': clause, 'mechanism': mechanism or clause,
                           'witness': jsonable(witness)})

    def check(self, clause, cond, mechanism=None, **witness):
        if cond:
            self.evals[clause] += 1
        else:
            self.bad(clause, mechanism, **witness)
        return bool(cond)

    def eq(self, clause, got, want, rel=1e-9, abs_=1e-12, mechanism=None, **witness):
        return self.check(clause, close(got, want, rel, abs_), mechanism, got=_f(got), want=_f(want), **witness)

    def seq(self, clause, got, want, rel=1e-9, abs_=1e-12, mechanism=None, **witness):
        d = first_diff(got, want, rel, abs_)
        return self.check(clause, d is None, mechanism, diff=d, **witness)

    def note(self, key, n=1):
        self.notes[key] += n

    def inconclusive(self, clause, why=''):
        self.incon[clause] += 1
        if why:
            self.notes[f'inconclusive:{clause}:{why}'[:160]] += 1

    def dump(self):
        return {'prop': self.prop, 'evals': dict(self.evals), 'viols': self.viols[:50], 'nviol': len(self.viols),
                'notes': dict(self.notes), 'incon': dict(self.incon)}

    def merge(self, d, case=None):
        """Merge a dump() from a job; attaches `case` (replay payload) to each violation."""
        if d is None:
            return
        self.evals.update(d.get('evals', {}))
        self.notes.update(d.get('notes', {}))
        self.incon.update(d.get('incon', {}))
        for v in d.get('viols', []):
            v = dict(v)
            if case is not None and 'case' not in v:
                v['case'] = case
            self.viols.append(v)
        extra = d.get('nviol', 0) - len(d.get('viols', []))
        if extra > 0:
            self.notes['violations-truncated'] += extra
