"""Reference annual integration (DESIGN.md appendix A.2) and bottom-hole temperature (A.3)."""
import math


def annual_energy_kwh(series, year, steps, util):
    """Trapezoid over the samples of that year including the first sample of the next year, normalised to one
    year, x 8760 h x 1000 kW/MW x utilisation.  Last year / one-sample years as documented."""
    n = len(series)
    a = year * steps
    b = min(n, (year + 1) * steps + 1)
    sl = [float(x) for x in series[a:b]]
    if len(sl) == 0:
        raise ValueError('empty slice')
    if len(sl) == 1:
        nxt = sl[0]
        if a - 1 > 0:
            nxt = sl[0] + (float(series[a]) - float(series[a - 1]))
        sl.append(nxt)
    k = len(sl) - 1
    area = 0.0
    for j in range(k):
        area += 0.5 * (sl[j] + sl[j + 1])
    mean_power = area / k            # MW, time-average over the year
    return mean_power * 8760.0 * 1000.0 * util, min(sl), max(sl)


def bht(tsurf, gradients_c_per_km, thicknesses_km, depth_km, tmax):
    """Bottom-hole temperature from the user's numbers: piecewise-constant gradients, last segment unbounded, depth
    capped where the temperature reaches tmax.  Returns (Trock, effective depth in km)."""
    g = [gi if gi >= 1e-3 else 1e-3 for gi in gradients_c_per_km]      # zero gradient is replaced by 0.001 degC/km
    n = len(g)
    bounds = []
    acc = 0.0
    for k in range(n - 1):
        acc += thicknesses_km[k]
        bounds.append(acc)
    bounds.append(math.inf)

    def T(d):
        t = tsurf
        top = 0.0
        for k in range(n):
            bot = bounds[k]
            if d <= top:
                break
            t += g[k] * (min(d, bot) - top)
            top = bot
        return t

    if T(depth_km) <= tmax:
        return T(depth_km), depth_km
    lo, hi = 0.0, depth_km
    for _ in range(200):
        mid = 0.5 * (lo + hi)
        if T(mid) <= tmax:
            lo = mid
        else:
            hi = mid
    return T(lo), lo
