"""Reference economics, written from the model definitions (DESIGN.md appendix A.1, A.6), deliberately in plain
Python floats and a different operation order than the code under test."""
import math


def levelize(model, CC, CO, extra, E, p):
    """Levelized cost in cents/kWh.

    model : 1 FCR, 2 Standard, 3 BICYCLE
    CC    : capital cost share [MUSD]; CO: O&M share [MUSD/yr]; extra: list of other annual costs [MUSD/yr];
    E     : list of yearly energy [kWh]; p: dict of rates.
    """
    L = len(E)
    ic = p['inflrateconstruction']
    if model == 1:
        num = p['FCR'] * (1.0 + ic) * CC + CO + (math.fsum(extra) / L if extra else 0.0)
        den = math.fsum(E) / L
        return num / den * 1e8
    if model == 2:
        r = p['discountrate']
        num = (1.0 + ic) * CC
        den = 0.0
        for t in range(L):
            d = (1.0 + r) ** (-t)
            num += (CO + (extra[t] if extra else 0.0)) * d
            den += E[t] * d
        return num / den * 1e8
    # BICYCLE
    FIB, BIR, EIR, CTR = p['FIB'], p['BIR'], p['EIR'], p['CTR']
    RINFL, PTR, GTR, RITC = p['RINFL'], p['PTR'], p['GTR'], p['RITC']
    i = FIB * BIR * (1.0 - CTR) + (1.0 - FIB) * EIR
    CRF = i / (1.0 - (1.0 + i) ** (-L))
    cap = (1.0 + ic) * CC
    npv_cap = npv_fc = npv_it = npv_oam = den = 0.0
    for t in range(1, L + 1):
        infl = (1.0 + RINFL) ** t
        dis = (1.0 + i) ** (-t)
        npv_cap += cap * CRF * dis
        npv_fc += cap * PTR * infl * dis
        npv_it += CTR / (1.0 - CTR) * (cap * CRF - CC / L) * dis
        npv_oam += (CO + (extra[t - 1] if extra else 0.0)) * infl * dis
        den += E[t - 1] * infl * dis
    npv_itc = cap * RITC / (1.0 - CTR)
    npv_grt = GTR / (1.0 - GTR) * (npv_cap + npv_oam + npv_fc + npv_it - npv_itc)
    return (npv_cap + npv_oam + npv_fc + npv_it + npv_grt - npv_itc) / den * 1e8


MMBTU = 2.931   # cents/kWh -> USD/MMBTU as documented


def price_schedule(L, start, end, t0, rate, ptc):
    """price_t = min(end, start + max(0, t - t0) * rate) + ptc_t   (DESIGN A.6)"""
    out = []
    for t in range(L):
        base = start + (max(0, t - t0) * rate)
        if base > end:
            base = end
        out.append(base + ptc[t])
    return out


def ptc_schedule(L, duration, ptc, adjusted, infl):
    return [(ptc * ((1.0 + infl) ** t if adjusted else 1.0)) if t < duration else 0.0 for t in range(L)]


def npv(rate, series, discount_first):
    """Plain NPV; discount_first: first cash flow is discounted one period (Excel convention)."""
    off = 1 if discount_first else 0
    return math.fsum(v / (1.0 + rate) ** (k + off) for k, v in enumerate(series))
