"""Check driver shared by all properties: context, known-findings matching, replay files, evidence, exit codes."""
import argparse
import hashlib
import importlib
import json
import os
import random
import sys
import time

from . import env
from .verdict import Mon, jsonable

LEVEL = 'exploration'


class Ctx:
    def __init__(self, prop, tier, seed):
        self.prop = prop
        self.tier = tier
        self.seed = seed
        self.rng = random.Random(f'{prop}:{seed}')
        self.t0 = time.time()
        self.mon = Mon(prop)
        self.cross = {}                 # other property -> Mon (cross-observations, never decide)
        self.coverage = {}
        self.samples = []
        self.assumptions = []
        self.rejected = {}
        self.inconclusive_jobs = 0
        self.inconclusive_detail = {}
        self.evaluations = 0
        self.distinct = set()
        self.required = {}              # clause -> minimum evaluations for a verdict
        self.rule = ''
        self.exhaustive = None
        self.budget_s = None

    @property
    def quick(self):
        return self.tier == 'quick'

    def pick(self, quick, thorough):
        return quick if self.quick else thorough

    def cross_mon(self, prop):
        if prop not in self.cross:
            self.cross[prop] = Mon(prop)
        return self.cross[prop]

    def reject(self, exc_type, exc_msg):
        key = f'{exc_type}: {(exc_msg or "")[:80]}'
        self.rejected[key] = self.rejected.get(key, 0) + 1

    def job_inconclusive(self, detail):
        self.inconclusive_jobs += 1
        k = (detail or '')[:100]
        self.inconclusive_detail[k] = self.inconclusive_detail.get(k, 0) + 1

    def sample(self, x, limit=6):
        if len(self.samples) < limit:
            self.samples.append(jsonable(x))

    def elapsed(self):
        return time.time() - self.t0


def load_findings():
    path = os.path.join(env.VERIF, 'known_findings.json')
    try:
        with open(path, encoding='utf-8') as f:
            return json.load(f)
    except OSError:
        return {'findings': []}


def write_replay(prop, viol):
    os.makedirs(os.path.join(env.VERIF, 'replay'), exist_ok=True)
    blob = json.dumps(viol, sort_keys=True, default=repr)
    h = hashlib.sha1(blob.encode()).hexdigest()[:12]
    path = os.path.join(env.VERIF, 'replay', f'{prop}-{h}.json')
    with open(path, 'w', encoding='utf-8') as f:
        f.write(json.dumps(viol, indent=1, default=repr))
    return path


def finish(ctx):
    """Decide, print the verdict lines, write evidence, return the exit code."""
    findings = [f for f in load_findings().get('findings', []) if f.get('property') == ctx.prop]
    open_by_mech = {}
    for f in findings:
        if f.get('status') == 'open':
            for m in f.get('mechanisms', [f.get('mechanism')]):
                open_by_mech[m] = f
    known_seen = {}
    unknown = {}
    for v in ctx.mon.viols:
        mech = v.get('mechanism')
        f = open_by_mech.get(mech)
        if f is not None:
            known_seen.setdefault(f['id'], [f, 0])[1] += 1
        else:
            unknown.setdefault(mech, []).append(v)
    code = 0
    for fid, (f, n) in sorted(known_seen.items()):
        print(f'KNOWN-FINDING: property={ctx.prop} {f["id"]} {f["what"]} (observed {n}x in this run)')
    for mech, vs in sorted(unknown.items(), key=lambda kv: str(kv[0])):
        path = write_replay(ctx.prop, vs[0])
        print(f'VIOLATION property={ctx.prop} replay={path}')
        print(f'  mechanism={mech} count={len(vs)} witness={json.dumps(vs[0].get("witness"), default=repr)[:400]}')
        code = 1
    incon = []
    for clause, floor in ctx.required.items():
        n = ctx.mon.evals.get(clause, 0)
        if n < floor:
            incon.append(f'{clause}({n}<{floor})')
    if code == 0 and incon:
        print(f'INCONCLUSIVE property={ctx.prop} clause={",".join(incon)}')
        code = 3
    wall = time.time() - ctx.t0
    cov = {
        'evaluations': int(ctx.evaluations),
        'distinct_nontrivial': int(len(ctx.distinct)),
        'rule': ctx.rule,
        'samples': ctx.samples or [{'note': 'no sample recorded'}],
        'clause_evaluations': dict(ctx.mon.evals),
        'clause_inconclusive': dict(ctx.mon.incon),
        'required_clause_floors': ctx.required,
        'rejected_inputs_by_class': ctx.rejected,
        'inconclusive_jobs': ctx.inconclusive_jobs,
        'inconclusive_job_detail': ctx.inconclusive_detail,
        'notes': {k: v for k, v in sorted(ctx.mon.notes.items())[:400]},
        'known_findings_seen': {fid: n for fid, (f, n) in known_seen.items()},
        'unlisted_violation_mechanisms': {str(k): len(v) for k, v in unknown.items()},
        'cross_observations': {p: {'evals': dict(m.evals), 'violations_by_mechanism': _count_mech(m)}
                               for p, m in ctx.cross.items()},
        'repo': env.REPO,
        'verdict': {0: 'held-on-what-was-observed', 1: 'violated', 3: 'inconclusive'}[code],
    }
    if ctx.exhaustive is not None:
        cov['exhaustive'] = bool(ctx.exhaustive)
    cov.update(ctx.coverage)
    ev = {'property_id': ctx.prop, 'tier': ctx.tier, 'seed': int(ctx.seed), 'level': LEVEL, 'coverage': jsonable_deep(cov),
          'assumptions': ctx.assumptions, 'wall_s': round(wall, 2), 'violations': len(ctx.mon.viols) - sum(
              n for _, n in known_seen.values())}
    # evidence under /verif/evidence only describes runs against /repo itself; runs against another tree (GXV_REPO,
    # used by bin/selftest and for seeded changes) write to the git-ignored work/ directory
    evdir = os.path.join(env.VERIF, 'evidence') if os.path.realpath(env.REPO) == '/repo' else os.path.join(env.VERIF, 'work')
    os.makedirs(evdir, exist_ok=True)
    with open(os.path.join(evdir, f'{ctx.prop}.json'), 'w', encoding='utf-8') as f:
        json.dump(ev, f, indent=1, default=repr)
    total = sum(ctx.mon.evals.values())
    print(f'{ctx.prop} tier={ctx.tier} seed={ctx.seed}: {ctx.evaluations} executions, {len(ctx.distinct)} distinct '
          f'non-trivial, {total} clause evaluations, {len(ctx.mon.viols)} violation records '
          f'({sum(n for _, n in known_seen.values())} known), {ctx.inconclusive_jobs} inconclusive jobs, '
          f'{sum(ctx.rejected.values())} rejected inputs, {wall:.1f}s -> exit {code}')
    return code


def _count_mech(m):
    out = {}
    for v in m.viols:
        out[str(v.get('mechanism'))] = out.get(str(v.get('mechanism')), 0) + 1
    return out


def jsonable_deep(x):
    import math
    if isinstance(x, dict):
        return {str(k): jsonable_deep(v) for k, v in x.items()}
    if isinstance(x, (list, tuple, set)):
        return [jsonable_deep(v) for v in x]
    if isinstance(x, float):
        return x if math.isfinite(x) else repr(x)
    if isinstance(x, (str, int, bool)) or x is None:
        return x
    return jsonable(x)


def main(argv=None):
    ap = argparse.ArgumentParser()
    ap.add_argument('prop')
    ap.add_argument('--tier', default=os.environ.get('VERIF_TIER', 'quick'), choices=['quick', 'thorough'])
    ap.add_argument('--replay')
    ap.add_argument('--seed', type=int, default=None)
    a = ap.parse_args(argv)
    seed = a.seed if a.seed is not None else int(os.environ.get('VERIF_SEED', '0') or 0)
    env.bootstrap()
    prop = a.prop.upper()
    mod = importlib.import_module(f'gxv.props.{prop.lower()}')
    ctx = Ctx(prop, a.tier, seed)
    if a.replay:
        with open(a.replay, encoding='utf-8') as f:
            payload = json.load(f)
        return mod.replay(ctx, payload)
    mod.run(ctx)
    return finish(ctx)


if __name__ == '__main__':
    sys.exit(main())
