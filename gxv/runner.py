"""Run one GEOPHIRES-X case in-process through the real entry point GEOPHIRESv3.main() under the observer."""
import contextlib
import io
import logging
import os
import sys
import tempfile
import time
import traceback

from . import observe

_TMP = None
_COUNTER = [0]


def workdir():
    """Private scratch directory of this process (removed by the pool / check when it ends)."""
    global _TMP
    if _TMP is None or not os.path.isdir(_TMP):
        base = os.environ.get('GXV_TMP')
        if base:
            os.makedirs(base, exist_ok=True)
        _TMP = tempfile.mkdtemp(prefix='gxvw-', dir=base)
        os.environ['TMPDIR'] = _TMP
        tempfile.tempdir = _TMP
    return _TMP


class RunResult:
    __slots__ = ('ok', 'exc_type', 'exc_msg', 'tb', 'report', 'json_text', 'snap', 'stages', 'read', 'wall',
                 'in_path', 'out_path', 'stdout', 'cwd_after', 'argv_after', 'extra')

    def brief(self):
        return {'ok': self.ok, 'exc_type': self.exc_type, 'exc_msg': (self.exc_msg or '')[:300], 'stages': self.stages}


def norm_report(text):
    """Report text with the date/time/version stamps removed (used wherever 'same report' is decided)."""
    if text is None:
        return None
    out = []
    for line in text.replace('\r\n', '\n').split('\n'):
        s = line.strip()
        if s.startswith(('Simulation Date:', 'Simulation Time:', 'Calculation Time:', 'GEOPHIRES Version:')):
            continue
        if 'Calculation Time' in s or 'Execution Time' in s.title() and 'sec' in s:
            continue
        out.append(line.rstrip())
    return '\n'.join(out).strip('\n')


def run_text(text, *, want_snap=True, want_read=False, stop_after_read=False, callbacks=(), keep_files=False,
             name=None, in_path=None, out_path=None, cwd=None):
    """Write `text` to an input file and run GEOPHIRESv3.main() on it.  Never raises for simulator errors."""
    import geophires_x.GEOPHIRESv3 as g3

    wd = workdir()
    _COUNTER[0] += 1
    stem = name or f'case{_COUNTER[0]}'
    if in_path is None:
        in_path = os.path.join(wd, stem + '.txt')
        with open(in_path, 'w', encoding='utf-8', newline='') as f:
            f.write(text)
    if out_path is None:
        out_path = os.path.join(wd, stem + '.out')
    json_path = out_path[:-len(os.path.basename(out_path))] + os.path.splitext(os.path.basename(out_path))[0] + '.json'
    for pth in (out_path, json_path):
        if os.path.exists(pth):
            os.remove(pth)

    rec = observe.reset(want_snap=want_snap, want_read=want_read, stop_after_read=stop_after_read, callbacks=callbacks)
    res = RunResult()
    res.in_path, res.out_path = in_path, out_path
    res.extra = rec.extra
    stash_cwd = os.getcwd()
    stash_argv = sys.argv
    if cwd is not None:
        os.chdir(cwd)
    sys.argv = ['', in_path, out_path]
    buf = io.StringIO()
    logging.disable(logging.CRITICAL)
    t0 = time.time()
    try:
        with contextlib.redirect_stdout(buf), contextlib.redirect_stderr(io.StringIO()):
            try:
                g3.main(enable_geophires_logging_config=False)
                res.ok, res.exc_type, res.exc_msg, res.tb = True, None, None, None
            except observe.StopAfterRead:
                res.ok, res.exc_type, res.exc_msg, res.tb = True, None, None, None
            except SystemExit as e:
                res.ok, res.exc_type, res.exc_msg, res.tb = False, 'SystemExit', str(e), None
            except BaseException as e:  # noqa
                if isinstance(e, KeyboardInterrupt):
                    raise
                res.ok, res.exc_type, res.exc_msg = False, type(e).__name__, str(e)
                res.tb = traceback.format_exc(limit=-6)
    finally:
        res.cwd_after = _safe_cwd()
        res.argv_after = list(map(str, sys.argv))
        sys.argv = stash_argv
        os.chdir(stash_cwd)
        logging.disable(logging.NOTSET)
    res.wall = time.time() - t0
    res.stdout = buf.getvalue()[-2000:]
    res.stages = list(rec.stages)
    res.snap = rec.snap
    res.read = rec.read
    res.report = _read(out_path)
    res.json_text = _read(json_path)
    if not keep_files:
        for pth in (in_path, out_path, json_path):
            with contextlib.suppress(OSError):
                os.remove(pth)
    return res


def _safe_cwd():
    try:
        return os.getcwd()
    except OSError:
        return None


def _read(path):
    try:
        with open(path, 'r', encoding='utf-8', errors='replace') as f:
            return f.read()
    except OSError:
        return None
