"""Worker pool: long-lived subprocesses speaking JSON lines, one job at a time each, with a per-job wall-clock
watchdog.  A watchdog firing or a worker death makes *that job* inconclusive (never a violation, never 'held') and the
worker is restarted.  multiprocessing.Pool is deliberately not used (it hangs when a child dies).
"""
import json
import os
import queue
import shutil
import subprocess
import sys
import tempfile
import threading
import time

from . import env


class JobResult:
    __slots__ = ('job', 'status', 'value', 'detail', 'wall')

    def __init__(self, job, status, value=None, detail=None, wall=0.0):
        self.job, self.status, self.value, self.detail, self.wall = job, status, value, detail, wall


class _Worker:
    def __init__(self, idx, tmp_root, hashseed):
        self.idx = idx
        self.tmp = os.path.join(tmp_root, f'w{idx}')
        os.makedirs(self.tmp, exist_ok=True)
        self.hashseed = hashseed
        self.proc = None
        self.start()

    def start(self):
        e = env.child_env({'GXV_TMP': self.tmp, 'TMPDIR': self.tmp}, hashseed=self.hashseed)
        self.proc = subprocess.Popen([env.PY, '-X', 'faulthandler', '-m', 'gxv.worker'], stdin=subprocess.PIPE,
                                     stdout=subprocess.PIPE, stderr=subprocess.DEVNULL, env=e, cwd=self.tmp,
                                     text=True, bufsize=1)

    def kill(self):
        try:
            self.proc.kill()
            self.proc.wait(timeout=10)
        except Exception:
            pass

    def call(self, job, timeout):
        """Send one job, wait for its reply with a watchdog."""
        t0 = time.time()
        try:
            self.proc.stdin.write(json.dumps(job) + '\n')
            self.proc.stdin.flush()
        except (BrokenPipeError, OSError):
            self.kill()
            self.start()
            return JobResult(job, 'inconclusive', detail='worker-dead-before-send', wall=0.0)
        holder = {}

        def reader():
            try:
                while True:
                    line = self.proc.stdout.readline()
                    if not line:
                        holder['eof'] = True
                        return
                    if line.startswith('@@GXV '):
                        holder['line'] = line[6:]
                        return
            except Exception as ex:  # noqa
                holder['err'] = repr(ex)

        th = threading.Thread(target=reader, daemon=True)
        th.start()
        th.join(timeout)
        wall = time.time() - t0
        if th.is_alive():
            self.kill()
            th.join(5)
            self.start()
            return JobResult(job, 'inconclusive', detail=f'watchdog>{timeout}s', wall=wall)
        if 'line' not in holder:
            self.kill()
            self.start()
            return JobResult(job, 'inconclusive', detail='worker-died:' + str(holder), wall=wall)
        try:
            rep = json.loads(holder['line'])
        except Exception as ex:  # noqa
            return JobResult(job, 'inconclusive', detail='bad-reply:' + repr(ex), wall=wall)
        if rep.get('status') == 'ok':
            return JobResult(job, 'ok', value=rep.get('value'), wall=wall)
        return JobResult(job, 'inconclusive', detail='harness-error:' + str(rep.get('error'))[:2000], wall=wall)


class Pool:
    def __init__(self, n=None, hashseeds=None):
        self.n = n or min(16, os.cpu_count() or 4)
        self.tmp_root = tempfile.mkdtemp(prefix='gxv-pool-')
        hs = hashseeds or ['0']
        self.workers = [_Worker(i, self.tmp_root, hs[i % len(hs)]) for i in range(self.n)]

    def close(self):
        for w in self.workers:
            try:
                w.proc.stdin.close()
            except Exception:
                pass
            w.kill()
        shutil.rmtree(self.tmp_root, ignore_errors=True)

    def __enter__(self):
        return self

    def __exit__(self, *a):
        self.close()

    def map(self, jobs, timeout=120, progress=None, deadline=None):
        """Run jobs (dicts with 'fn' and 'args'); yields JobResult in completion order.  Jobs not started before
        `deadline` (time.time() value) are dropped and reported as status 'skipped'."""
        q = queue.Queue()
        out = queue.Queue()
        jobs = list(jobs)
        for i, j in enumerate(jobs):
            j.setdefault('id', i)
            q.put(j)

        def loop(w):
            while True:
                try:
                    j = q.get_nowait()
                except queue.Empty:
                    return
                if deadline is not None and time.time() > deadline:
                    out.put(JobResult(j, 'skipped', detail='deadline'))
                    continue
                out.put(w.call(j, j.get('timeout', timeout)))

        ths = [threading.Thread(target=loop, args=(w,), daemon=True) for w in self.workers]
        for t in ths:
            t.start()
        done = 0
        while done < len(jobs):
            r = out.get()
            done += 1
            if progress and done % progress == 0:
                print(f'  .. {done}/{len(jobs)} jobs', file=sys.stderr, flush=True)
            yield r
        for t in ths:
            t.join()
