"""Independent tokenizer of the GEOPHIRES-X case report: sections, labelled lines (label, number, unit text) and
profile tables.  Shared by C09 (report vs snapshot), C10 (client vs report), C14, C20."""
import re

SECTION_RE = re.compile(r'^\s*\*{3}\s*(.+?)\s*\*{3}\s*$')
BOX_RE = re.compile(r'^\s*\*\s{1,}(.+?)\s{1,}\*\s*$')
STARS_RE = re.compile(r'^\s*\*{8,}\s*$')
NUM = r'[-+]?(?:\d[\d,]*\.?\d*|\.\d+)(?:[eE][-+]?\d+)?'
LINE_RE = re.compile(r'^(\s*)(.+?):\s*(' + NUM + r'|N/A|nan|-?inf)(?:\s+(\S.*?))?\s*$')
EQ_RE = re.compile(r'^(\s*)(.+?)\s=\s(.+?)\s*$')
ROW_RE = re.compile(r'^[\s|]*(' + NUM + r'|nan|-?inf)(?:[\s|]+(' + NUM + r'|nan|-?inf))*[\s|]*$')


class Line:
    __slots__ = ('section', 'label', 'text', 'value', 'decimals', 'sci', 'unit', 'raw', 'lineno')

    def __repr__(self):
        return f'Line({self.section!r}, {self.label!r}, {self.text!r}, {self.unit!r})'


class Table:
    __slots__ = ('title', 'header', 'rows', 'cells', 'lineno')


def _num(text):
    t = text.replace(',', '')
    try:
        return float(t)
    except ValueError:
        return None


def decimals_of(text):
    """(decimals, scientific?) of a printed number."""
    t = text.lower()
    if 'e' in t:
        mant = t.split('e')[0]
        return (len(mant.split('.')[1]) if '.' in mant else 0), True
    return (len(t.split('.')[1]) if '.' in t else 0), False


def tokenize(report):
    lines = report.replace('\r\n', '\n').split('\n')
    out_lines, tables, info = [], [], []
    section = 'HEADER'
    i = 0
    n = len(lines)
    while i < n:
        ln = lines[i]
        # boxed table title:  ****** / *  TITLE  * / ******
        if STARS_RE.match(ln) and i + 2 < n and BOX_RE.match(lines[i + 1]) and STARS_RE.match(lines[i + 2]):
            title = BOX_RE.match(lines[i + 1]).group(1).strip()
            j = i + 3
            header = []
            while j < n:
                cur = lines[j]
                if ROW_RE.match(cur):
                    break
                if STARS_RE.match(cur) or SECTION_RE.match(cur):
                    break
                if cur.strip() == '':
                    if header:
                        break
                    j += 1
                    continue
                header.append(cur)
                j += 1
            rows, cells = [], []
            while j < n and ROW_RE.match(lines[j]):
                toks = [t for t in re.split(r'[\s|]+', lines[j].strip()) if t]
                rows.append([_num(t) for t in toks])
                cells.append(toks)
                j += 1
            t = Table()
            t.title, t.header, t.rows, t.cells, t.lineno = title, header, rows, cells, i
            tables.append(t)
            section = title
            i = j
            continue
        m = SECTION_RE.match(ln)
        if m and not STARS_RE.match(ln):
            section = m.group(1).strip()
            i += 1
            continue
        m = LINE_RE.match(ln)
        if m and not ROW_RE.match(ln):
            L = Line()
            L.section, L.label, L.text = section, m.group(2).strip(), m.group(3)
            L.value = _num(L.text) if L.text not in ('N/A',) else None
            L.decimals, L.sci = decimals_of(L.text) if L.value is not None else (0, False)
            L.unit = (m.group(4) or '').strip()
            L.raw, L.lineno = ln, i
            out_lines.append(L)
        elif ln.strip():
            info.append((section, ln.strip()))
        i += 1
    return out_lines, tables, info


def printed_matches(text, decimals, sci, expected, extra_rel=1e-9):
    """Does the printed number equal `expected` rounded to the displayed precision?"""
    import math
    p = _num(text)
    if p is None or expected is None:
        return False
    if isinstance(expected, float) and (math.isnan(expected) or math.isinf(expected)):
        return (math.isnan(p) and math.isnan(expected)) or p == expected
    if sci:
        if expected == 0:
            return p == 0
        exp10 = math.floor(math.log10(abs(expected)))
        tol = 0.5 * 10 ** (exp10 - decimals) * 1.0000001 + extra_rel * abs(expected)
        # the exponent may roll over when the mantissa rounds up
        return abs(p - expected) <= tol or abs(p - expected) <= 0.5 * 10 ** (exp10 + 1 - decimals)
    tol = 0.5 * 10 ** (-decimals) * 1.0000001 + extra_rel * abs(expected) + 1e-12
    return abs(p - expected) <= tol
