"""Single-run oracles over the after_calculate snapshot: C02 (energy balance), C05 (resource temperature and
drawdown), C15 (pumping power and modelled pressures)."""
import math

import numpy as np

from .oracles_econ import COGEN, _iv, _lst, config
from .ref import energy as E
from .verdict import close

STD_PLANTS = ('SurfacePlantSubcriticalOrc', 'SurfacePlantSupercriticalOrc', 'SurfacePlantSingleFlash',
              'SurfacePlantDoubleFlash', 'SurfacePlantIndustrialHeat', 'SurfacePlantHeatPump',
              'SurfacePlantAbsorptionChiller', 'SurfacePlantDistrictHeating')


def _arr(v):
    if v is None:
        return None
    a = np.asarray(v, dtype=float)
    return a


# -------------------------------------------------------------------------------------------------------------- C02

def c02(mon, s):
    cfg = config(s)
    sp, wb, rs, ec = s.surfaceplant, s.wellbores, s.reserv, s.economics
    plant = cfg['plant']
    if plant not in STD_PLANTS or s.classes.get('wellbores') not in ('WellBores', 'SBTWellbores'):
        mon.note('c02-skip-plant:' + str(plant))
        return
    eu, pt, L = cfg['enduse'], cfg['ptype'], cfg['life']
    steps = int(ec.timestepsperyear.value)
    n = float(wb.nprod.value)
    q = float(wb.prodwellflowrate.value)
    cp = float(rs.cpwater.value)
    Tinj = float(wb.Tinj.value)
    Tprod = _arr(wb.ProducedTemperature.value)
    HX = _arr(sp.HeatExtracted.value)
    if Tprod is None or HX is None or len(Tprod) != len(HX):
        mon.inconclusive('heat-extracted', 'series-missing')
        return
    N = len(HX)
    mon.check('series-length', N == steps * L, mechanism='C02/series-length', n=N, steps=steps, life=L)
    want = n * q * cp * (Tprod - Tinj) / 1e6
    mon.seq('heat-extracted', HX, want, rel=1e-9, abs_=1e-12, mechanism='C02/heat-extracted-not-mdot-cp-dT',
            nprod=n, q=q, cp=cp, Tinj=Tinj)
    pump = _arr(wb.PumpingPower.value)
    eff = float(sp.enduse_efficiency_factor.value)
    has_elec = eu != 2
    if has_elec:
        gross = _arr(sp.ElectricityProduced.value)
        net = _arr(sp.NetElectricityProduced.value)
        mon.seq('net-electricity', net, gross - pump, rel=1e-9, abs_=1e-12, mechanism='C02/net-not-gross-minus-pumping')
    HP = _arr(sp.HeatProduced.value) if eu != 1 else None
    if eu == 2:
        if plant == 'SurfacePlantHeatPump':
            cop = float(sp.heat_pump_cop.value)
            mon.seq('useful-heat', HP, HX * cop / (cop - 1.0) * eff, rel=1e-9, abs_=1e-12,
                    mechanism='C02/heat-pump-heat-relation', cop=cop, eff=eff)
            mon.seq('useful-heat', _arr(sp.heat_pump_electricity_used.value), HX / (cop - 1.0), rel=1e-9, abs_=1e-12,
                    mechanism='C02/heat-pump-electricity-relation', cop=cop)
        elif plant == 'SurfacePlantAbsorptionChiller':
            cop = float(sp.absorption_chiller_cop.value)
            mon.seq('useful-heat', _arr(sp.cooling_produced.value), HX * cop * eff, rel=1e-9, abs_=1e-12,
                    mechanism='C02/chiller-cooling-relation', cop=cop, eff=eff)
        else:
            mon.seq('useful-heat', HP, HX * eff, rel=1e-9, abs_=1e-12, mechanism='C02/direct-use-heat-not-eff-times-extracted',
                    eff=eff, plant=plant)
    elif eu in COGEN:
        fle = _arr(sp.FirstLawEfficiency.value)
        net = _arr(sp.NetElectricityProduced.value)
        if eu in (31, 32):
            # topping: extracted heat = heat to power (net / first-law efficiency) + heat to direct use (useful / eff)
            with np.errstate(all='ignore'):
                to_power = net / fle
            ok = np.isfinite(to_power)
            if ok.all():
                mon.seq('useful-heat', HP, eff * (HX - to_power), rel=1e-8, abs_=1e-9,
                        mechanism='C02/topping-cycle-heat-split', eff=eff)
            else:
                mon.inconclusive('useful-heat', 'first-law-efficiency-not-finite')
        elif eu in (41, 42):
            tb = float(sp.T_chp_bottom.value)
            mon.seq('useful-heat', HP, eff * n * q * cp * (Tprod - tb) / 1e6, rel=1e-9, abs_=1e-12,
                    mechanism='C02/bottoming-cycle-heat-split', Tbottom=tb)
            with np.errstate(all='ignore'):
                to_power = net / fle
            if np.isfinite(to_power).all():
                mon.seq('useful-heat', to_power, np.full(N, n * q * cp * (tb - Tinj) / 1e6), rel=1e-8, abs_=1e-9,
                        mechanism='C02/bottoming-cycle-heat-to-power')
        else:
            f = float(sp.chp_fraction.value)
            mon.seq('useful-heat', HP, eff * f * HX, rel=1e-9, abs_=1e-12, mechanism='C02/parallel-cycle-heat-split', f=f)
            with np.errstate(all='ignore'):
                to_power = net / fle
            if np.isfinite(to_power).all():
                mon.seq('useful-heat', to_power, (1.0 - f) * HX, rel=1e-8, abs_=1e-9,
                        mechanism='C02/parallel-cycle-heat-to-power', f=f)
    # ---- annual figures
    dh = plant == 'SurfacePlantDistrictHeating'
    if dh:
        ufa = _lst(sp.util_factor_array.value)
    uf = float(sp.utilization_factor.value)
    add_el = add_h = 0.0
    if cfg['addons']:
        add_el = float(s.addeconomics.AddOnElecGainedTotalPerYear.value)
        add_h = float(s.addeconomics.AddOnHeatGainedTotalPerYear.value)
        mon.note('c02-addons')
    sd_el = sd_h = None
    if cfg['sdac']:
        sd = s.sdacgteconomics
        cx = _lst(sd.CarbonExtractedAnnually.value)
        sd_el = [c * float(sd.elec.value) for c in cx]
        sd_h = [c * float(sd.therm.value) for c in cx]
        mon.note('c02-sdac')

    def annual(clause, reported, series, shift=None, use_dh_uf=dh):
        rep = _lst(reported)
        if rep is None or len(rep) != L:
            mon.bad(clause, mechanism='C02/annual-series-length:' + clause, n=None if rep is None else len(rep), life=L)
            return
        for i in range(L):
            u = ufa[i] if use_dh_uf else uf
            try:
                w, lo, hi = E.annual_energy_kwh(series, i, steps, u)
            except (ValueError, IndexError) as ex:
                mon.inconclusive(clause, type(ex).__name__)
                return
            if shift is not None:
                w += shift[i] if isinstance(shift, list) else shift
            if not close(rep[i], w, 1e-9, 1e-6):
                mon.bad(clause, mechanism='C02/annual-figure-not-integral-of-power:' + clause, year=i, got=rep[i], want=w,
                        steps=steps, life=L, util=u)
                return
            # guard on the reference itself: annual energy inside the year's power envelope (without shifts)
            base = w - ((shift[i] if isinstance(shift, list) else shift) if shift is not None else 0.0)
            if not (min(lo, hi if len(series) else lo) * 8760e3 * u - 1e-6 - 1e-9 * abs(base) <= base
                    <= max(hi, lo) * 8760e3 * u + 1e-6 + 1e-9 * abs(base)):
                # extrapolated last sample may leave the envelope; not judged
                mon.note('c02-envelope-exceeded-by-extrapolation')
        mon.ok(clause)

    annual('annual-heat-extracted', sp.HeatkWhExtracted.value, HX)
    annual('annual-pumping', sp.PumpingkWh.value, pump)
    if has_elec:
        sh = add_el if add_el else None
        if sd_el is not None:
            sh = [(add_el - x) for x in sd_el]
        annual('annual-electricity', sp.TotalkWhProduced.value, _arr(sp.ElectricityProduced.value), shift=sh)
        annual('annual-net-electricity', sp.NetkWhProduced.value, _arr(sp.NetElectricityProduced.value), shift=sh)
    if eu != 1:
        sh = add_h if add_h else None
        if sd_h is not None:
            sh = [(add_h - x) for x in sd_h]
        annual('annual-heat', sp.HeatkWhProduced.value, HP, shift=sh)
    if plant == 'SurfacePlantAbsorptionChiller':
        annual('annual-cooling', sp.cooling_kWh_Produced.value, _arr(sp.cooling_produced.value))
    if plant == 'SurfacePlantHeatPump':
        annual('annual-heat-pump-electricity', sp.heat_pump_electricity_kwh_used.value,
               _arr(sp.heat_pump_electricity_used.value))
    # ---- reservoir heat content
    init = float(rs.InitialReservoirHeatContent.value)
    hxk = _arr(sp.HeatkWhExtracted.value)
    mon.seq('remaining-heat', _arr(sp.RemainingReservoirHeatContent.value), init - np.cumsum(hxk) * 3.6e6 / 1e15,
            rel=1e-9, abs_=1e-12, mechanism='C02/remaining-heat-content')
    if dh:
        _c02_dh(mon, s, cfg, HP, steps)
    if N > 1 and float(np.max(Tprod) - np.min(Tprod)) > 1e-9:
        mon.note('c02-nontrivial')


def _c02_dh(mon, s, cfg, HP, steps):
    sp = s.surfaceplant
    L = cfg['life']
    geo = _arr(sp.dh_geothermal_heating.value)
    ng = _arr(sp.dh_natural_gas_heating.value)
    dem = _arr(sp.daily_heating_demand.value)
    if geo is None or ng is None or dem is None or len(dem) != 365 or len(geo) != 365 * L:
        mon.bad('district-heating-balance', mechanism='C02/district-heating-series-length',
                n_geo=None if geo is None else len(geo), n_dem=None if dem is None else len(dem))
        return
    want = np.tile(dem / 24.0, L)
    mon.seq('district-heating-balance', geo + ng, want, rel=1e-9, abs_=1e-12,
            mechanism='C02/district-heating-geothermal-plus-peaking-not-demand')
    if float(np.min(HP)) >= 0.0:
        mon.check('district-heating-balance', bool((geo >= -1e-12).all() and (ng >= -1e-12).all()),
                  mechanism='C02/district-heating-negative-supply')
    else:
        mon.note('c02-district-heating-wells-deliver-negative-heat')
    # geothermal supply never exceeds what the wells deliver (local envelope, tolerant to the two time grids in use)
    n = len(HP)
    bad = None
    for k in range(365 * L):
        t = k // 365 + (k % 365) / 365.0
        lo = max(0, int(math.floor(t * (steps - 1.0 / L))) - 1)
        hi = min(n - 1, int(math.ceil(t * steps)) + 1)
        if lo > hi:
            lo = hi
        mx = float(np.max(HP[lo:hi + 1]))
        if geo[k] > mx + 1e-9 * abs(mx) + 1e-12:
            bad = {'day': k, 'geothermal': float(geo[k]), 'wells_max_local': float(np.max(HP[lo:hi + 1]))}
            break
    mon.check('district-heating-supply-bound', bad is None, mechanism='C02/district-heating-geothermal-exceeds-well-output',
              detail=bad)
    ann = _arr(sp.annual_ng_demand.value)
    mon.seq('district-heating-annual', ann, ng.reshape(L, 365).sum(axis=1) * 24.0, rel=1e-9, abs_=1e-9,
            mechanism='C02/district-heating-annual-peaking-demand')
    mon.eq('district-heating-annual', float(np.asarray(sp.annual_heating_demand.value).reshape(-1)[0]),
           float(dem.sum()) / 1000.0, rel=1e-9, mechanism='C02/district-heating-annual-demand')
    mon.note('c02-district-heating')


# -------------------------------------------------------------------------------------------------------------- C05

RES_1_4 = {'MPFReservoir': 1, 'LHSReservoir': 2, 'SFReservoir': 3, 'TDPReservoir': 4}


def _num(sval):
    """Leading number of an input value such as '3.5' or '3.5 kilometer' (units are C06's subject, not C05's)."""
    parts = str(sval).strip().split()
    return float(parts[0]), (parts[1] if len(parts) > 1 else None)


def c05(mon, s, text=None):
    rs, wb = s.reserv, s.wellbores
    rcls = s.classes.get('reserv')
    if rcls not in RES_1_4:
        mon.note('c05-skip-reservoir:' + str(rcls))
        return
    if s.classes.get('wellbores') != 'WellBores':
        mon.note('c05-skip-wellbores:' + str(s.classes.get('wellbores')))
        return
    model_no = RES_1_4[rcls]
    inp = s.input_values
    try:
        nseg = int(float(inp.get('Number of Segments', '1')))
        g, h = [], []
        unit_seen = False
        for k in range(1, nseg + 1):
            if f'Gradient {k}' in inp:
                v, u = _num(inp[f'Gradient {k}'])
            else:
                v, u = (50.0 if k == 1 else 0.0), None
            unit_seen |= u is not None
            g.append(v)
            if k < nseg:
                if f'Thickness {k}' in inp:
                    v, u = _num(inp[f'Thickness {k}'])
                else:
                    v, u = (2.0 if k == 1 else 0.01), None
                unit_seen |= u is not None
                h.append(v)
        if 'Reservoir Depth' not in inp:
            mon.note('c05-skip-depth-not-supplied')
            return
        depth, u = _num(inp['Reservoir Depth'])
        unit_seen |= u is not None
    except (ValueError, KeyError) as ex:
        mon.inconclusive('bottom-hole-temperature', 'input-parse:' + type(ex).__name__)
        return
    if unit_seen:
        mon.note('c05-skip-explicit-units')
        return
    tsurf = float(rs.Tsurf.value)
    tmax = float(rs.Tmax.value)
    want, eff_depth = E.bht(tsurf, g, h, depth, tmax)
    got = float(rs.Trock.value)
    def classify(default):
        used = _segments_used(g, h, depth)
        if any(0 < g[k] <= 1.0 for k in used):
            return 'C05/gradient<=1-degC-per-km-read-as-degC-per-m'
        if any(h[k] == 100.0 for k in used if k < len(h)):
            return 'C05/thickness==100-km-read-as-100-m'
        return default

    mech = None
    ok = close(got, want, 1e-9, 1e-9)
    if not ok:
        mech = classify('C05/bottom-hole-temperature-not-gradient-integral')
    mon.check('bottom-hole-temperature', ok, mechanism=mech, got=got, want=want, gradients=g, thicknesses=h, depth=depth,
              tmax=tmax, tsurf=tsurf, model=model_no)
    if ok:
        d_got = float(rs.depth.value)
        if (rs.depth.CurrentUnits or '').lower().startswith('m') and not (rs.depth.CurrentUnits or '').lower().startswith('mi'):
            d_got /= 1000.0
        okd = close(d_got, eff_depth, 1e-9, 1e-9)
        mon.check('effective-depth', okd, mechanism=None if okd else classify('C05/depth-not-capped-at-Tmax-depth'),
                  got=d_got, want=eff_depth, units=rs.depth.CurrentUnits)
        if eff_depth < depth:
            mon.note('c05-tmax-cap-active')
    if nseg > 1:
        mon.note('c05-multisegment')
    Tres = _arr(rs.Tresoutput.value)
    Tprod = _arr(wb.ProducedTemperature.value)
    if Tres is None or Tprod is None or len(Tres) == 0:
        mon.inconclusive('history-starts-at-bht', 'series-missing')
        return
    trock = got
    # models 1,2: numerically inverted Laplace solution; the first sample is forced to the second in the code, so the
    # start value is compared with a tolerance of the inversion accuracy
    tol = 1e-9 if model_no in (3, 4) else 1e-3
    mon.check('history-starts-at-bht', close(float(Tres[0]), trock, tol, tol), mechanism='C05/history-does-not-start-at-bht',
              Tres0=float(Tres[0]), Trock=trock, model=model_no)
    maxdd = float(wb.maxdrawdown.value)
    limit = (1.0 - maxdd) * float(Tprod[0])
    if float(Tprod[0]) > 0.0:
        below = np.nonzero(Tprod < limit - 1e-9 * abs(limit) - 1e-12)[0]
        mon.check('drawdown-limit', len(below) == 0, mechanism='C05/production-temperature-below-drawdown-limit',
                  index=int(below[0]) if len(below) else None, value=float(Tprod[below[0]]) if len(below) else None,
                  limit=limit, maxdrawdown=maxdd)
    else:
        mon.note('c05-initial-production-temperature-not-positive')      # 'fraction of the initial value' is undefined
    redrill = int(wb.redrill.value)
    n = len(Tprod)
    if redrill > 0:
        ok_tile = False
        qs = [q for q in range(1, n + 1) if n // q == redrill]
        for q in qs:
            if np.array_equal(Tprod[q:], Tprod[:n - q]) and np.array_equal(Tres[q:], Tres[:n - q]):
                ok_tile = True
                break
        mon.check('redrilling-restarts-profile', ok_tile, mechanism='C05/profile-does-not-restart-at-redrilling',
                  redrill=redrill, n=n, candidates=qs[:6])
        mon.note('c05-redrilling')
    tinj = float(wb.Tinj.value)
    try:
        # the temperature the reservoir model saw: the user's injection temperature plus the wellbore gain (a power
        # plant may later replace Tinj by its own reinjection temperature)
        tinj_user = _num(inp.get('Injection Temperature', '70'))[0] + float(wb.tempgaininj.value)
    except (ValueError, AttributeError):
        tinj_user = tinj
    if model_no in (3, 4) and max(tinj, tinj_user) > trock:
        # injecting water hotter than the rock legitimately heats the reservoir: the clause presupposes heat extraction
        mon.note('c05-injection-hotter-than-rock')
    elif model_no in (3, 4):
        mon.check('never-above-bht', bool((Tres <= trock * (1 + 1e-12) + 1e-9).all()),
                  mechanism='C05/reservoir-temperature-above-bht', max=float(Tres.max()), Trock=trock)
        d = np.diff(Tres)
        rises = np.nonzero(d > 1e-9)[0]
        if redrill > 0:
            # a rise is legitimate only at a restart of the tiled profile
            qs = [q for q in range(1, n + 1) if n // q == redrill and np.array_equal(Tprod[q:], Tprod[:n - q])]
            okr = any(all(((int(i) + 1) % q) == 0 for i in rises) for q in qs) if len(rises) else True
        else:
            okr = len(rises) == 0
        mon.check('non-increasing-between-redrillings', okr, mechanism='C05/reservoir-temperature-rises-between-redrillings',
                  rises=[int(i) for i in rises[:5]], redrill=redrill)
    if n > 1 and float(Tres.max() - Tres.min()) > 1e-9:
        mon.note('c05-nontrivial')


def _segments_used(g, h, depth):
    used = []
    top = 0.0
    for k in range(len(g)):
        used.append(k)
        if k < len(h):
            top += h[k]
            if depth <= top:
                break
    return used


# -------------------------------------------------------------------------------------------------------------- C15

def c15(mon, s):
    cfg = config(s)
    wb, sp, ec = s.wellbores, s.surfaceplant, s.economics
    if s.classes.get('wellbores') != 'WellBores':
        # sibling wellbore classes (closed-loop): only the sign clause carries over
        mon.note('c15-sibling-wellbores:' + str(s.classes.get('wellbores')))
        pump = _arr(wb.PumpingPower.value) if wb.has('PumpingPower') else None
        if pump is not None and pump.ndim == 1 and len(pump):
            neg = np.nonzero(pump < 0)[0]
            mon.check('pumping-nonnegative', len(neg) == 0, mechanism='C15/negative-total-pumping-power',
                      index=int(neg[0]) if len(neg) else None, value=float(pump[neg[0]]) if len(neg) else None,
                      wellbores=s.classes.get('wellbores'))
        return
    L = cfg['life']
    steps = int(ec.timestepsperyear.value)
    pump = _arr(wb.PumpingPower.value)
    if pump is None or pump.ndim != 1:
        mon.inconclusive('pumping-nonnegative', 'series-missing')
        return
    neg = np.nonzero(pump < 0)[0]
    mon.check('pumping-nonnegative', len(neg) == 0, mechanism='C15/negative-total-pumping-power',
              index=int(neg[0]) if len(neg) else None, value=float(pump[neg[0]]) if len(neg) else None)
    imp = bool(wb.impedancemodelused.value)
    mon.note('c15-hydraulics:' + ('impedance' if imp else 'indexes'))
    if not imp:
        pp = _arr(wb.PumpingPowerProd.value)
        pi = _arr(wb.PumpingPowerInj.value)
        pumped = bool(wb.productionwellpumping.value)
        mon.note('c15-production-pumping:' + str(pumped))
        if pi is not None and pi.ndim == 1 and len(pi) == len(pump):
            for nm, arr in (('production', pp), ('injection', pi)):
                if arr is not None and arr.ndim == 1 and len(arr) == len(pump):
                    ng = np.nonzero(arr < 0)[0]
                    mon.check('pumping-nonnegative', len(ng) == 0, mechanism='C15/negative-' + nm + '-pumping-power',
                              index=int(ng[0]) if len(ng) else None)
            if pumped and pp is not None and pp.ndim == 1 and len(pp) == len(pump):
                mon.seq('pumping-total-is-sum', pump, pp + pi, rel=1e-12, abs_=1e-15,
                        mechanism='C15/total-pumping-not-production-plus-injection')
            elif not pumped:
                mon.seq('pumping-total-is-sum', pump, pi, rel=1e-12, abs_=1e-15,
                        mechanism='C15/total-pumping-not-injection-when-self-flowing')
    # ---- reservoir pressures
    pct = float(wb.overpressure_percentage.value)
    pr = _arr(wb.production_reservoir_pressure.value)
    if wb.overpressure_percentage.Provided and pct >= 100.0 and pr is not None and pr.ndim == 1 and len(pr) == steps * L:
        rate = float(wb.overpressure_depletion_rate.value)
        mon.note('c15-overpressure')
        if pct == 100.0:
            mon.check('production-pressure', bool((pr == pr[0]).all()), mechanism='C15/pressure-not-constant-at-100-percent')
        elif rate > 0:
            # hydrostatic is the floor the series settles at or, if it never gets there, p0 / (pct/100)
            p0 = float(pr[0])
            hyd = p0 / (pct / 100.0)
            D = p0 - hyd
            nstar = 100.0 / rate * steps
            d = np.diff(pr)
            mon.check('production-pressure', bool((d <= 1e-9 * p0).all()), mechanism='C15/production-pressure-rises',
                      first_rise=int(np.nonzero(d > 1e-9 * p0)[0][0]) if (d > 1e-9 * p0).any() else None)
            mon.check('production-pressure', bool((pr >= hyd * (1 - 1e-9)).all()),
                      mechanism='C15/production-pressure-below-hydrostatic', min=float(pr.min()), hydrostatic=hyd)
            if len(pr) > 1 and nstar >= 1:
                lo_dec = D / nstar
                hi_dec = D / (nstar - 1) if nstar > 1 else math.inf
                okd = True
                wit = None
                for t in range(1, len(pr)):
                    if pr[t] <= hyd * (1 + 1e-12):
                        break                     # clamped at hydrostatic from here on
                    dec = (p0 - pr[t]) / t
                    if not (lo_dec * (1 - 1e-9) <= dec < hi_dec * (1 + 1e-9) or close(dec, hi_dec, 1e-9)):
                        okd = False
                        wit = {'t': t, 'decrement': float(dec), 'lo': lo_dec, 'hi': hi_dec}
                        break
                mon.check('production-pressure-rate', okd, mechanism='C15/depletion-rate-not-as-stated', detail=wit, rate=rate,
                          pct=pct, steps=steps)
            # starts at that multiple of hydrostatic: the settled floor, when reached, must be p0/(pct/100)
            floor = float(pr.min())
            if floor < p0 and (pr[-1] == pr[-2] if len(pr) > 1 else False) and len(pr) > nstar + 1:
                mon.eq('production-pressure-start', p0, floor * pct / 100.0, rel=1e-9,
                       mechanism='C15/initial-pressure-not-stated-multiple-of-hydrostatic', pct=pct)
        ir = _arr(wb.injection_reservoir_pressure.value)
        infl = float(wb.injection_reservoir_inflation_rate.value)
        if ir is not None and ir.ndim == 1 and len(ir) == steps * L and infl != 0:
            want = float(ir[0]) + np.arange(len(ir)) * (infl / steps)
            mon.seq('injection-pressure', ir, want, rel=1e-12, abs_=1e-9, mechanism='C15/injection-pressure-not-rising-at-rate',
                    rate=infl, steps=steps)
    if float(pump.max()) > 0:
        mon.note('c15-nontrivial')
