"""Monte-Carlo harness shared by C13 and C14: settings generator, driver of the real MC client under a chosen worker
count with injected delays around the row append, parser of the result file, event-log reader."""
import concurrent.futures
import glob
import json
import math
import os
import sys
import random
import re
import shutil
import tempfile
import time

from . import env

GEO_BASE = """Reservoir Model, 4
Drawdown Parameter, 0.005
Reservoir Depth, 2.5
Number of Segments, 1
Gradient 1, 65
Number of Production Wells, 3
Number of Injection Wells, 2
Production Well Diameter, 9.625
Injection Well Diameter, 9.625
Ramey Production Wellbore Model, 0
Production Wellbore Temperature Drop, 0
Injection Wellbore Temperature Gain, 0
Production Flow Rate per Well, 70
Maximum Temperature, 375
Reservoir Volume Option, 4
Reservoir Volume, 1e9
Water Loss Fraction, 0.0
Injectivity Index, 10
Productivity Index, 10
Injection Temperature, 70
Maximum Drawdown, 1
Reservoir Heat Capacity, 1050
Reservoir Density, 2700
Reservoir Thermal Conductivity, 3
End-Use Option, 1
Power Plant Type, 1
Circulation Pump Efficiency, 0.8
Utilization Factor, 0.9
Surface Temperature, 15
Ambient Temperature, 15
Plant Lifetime, 20
Economic Model, 2
Discount Rate, 0.06
Inflation Rate During Construction, 0.05
Starting Electricity Sale Price, 0.12
Ending Electricity Sale Price, 0.12
Print Output to Console, 0
Time steps per year, 2
"""
HIP_BASE = """Reservoir Temperature, 250.0
Rejection Temperature, 60.0
Reservoir Porosity, 10.0
Reservoir Area, 55.0
Reservoir Thickness, 0.25
Reservoir Life Cycle, 25
"""

GEO_INPUTS = {
    'Gradient 1': [('uniform', 45, 85), ('normal', 65, 4), ('triangular', 50, 65, 80)],
    'Reservoir Depth': [('uniform', 1.8, 3.2), ('triangular', 2.0, 2.5, 3.0)],
    'Utilization Factor': [('uniform', 0.7, 0.95)],
    'Ambient Temperature': [('triangular', 10, 15, 25), ('uniform', 5, 25), ('uniform', -5, 15), ('normal', -2, 3), ('triangular', 10, 10, 25), ('triangular', 5, 25, 25)],
    # a sampled name that is a proper prefix of another parameter set in the base input ('Inflation Rate During Construction')
    'Inflation Rate': [('uniform', 0.01, 0.04)],
    'Production Flow Rate per Well': [('lognormal', 4.2, 0.15), ('uniform', 40, 100)],
    'Reservoir Heat Capacity': [('normal', 1050, 30)],
    'Injection Temperature': [('uniform', 55, 80)],
    'Number of Production Wells': [('binomial', 6, 0.6)],
}
GEO_FAIL = {0.3: ('Utilization Factor', ('uniform', 0.8, 1.0857)),        # P(value > 1) ~ 0.30
            0.9: ('Utilization Factor', ('uniform', 0.97, 1.3))}           # P(value > 1) ~ 0.91
GEO_OUTPUTS = ['Average Net Electricity Production', 'Electricity breakeven price', 'Average Production Temperature',
               'Total capital costs', 'Average Annual Net Electricity Generation', 'Project NPV', 'Average Pumping Power']
HIP_INPUTS = {
    'Reservoir Porosity': [('uniform', 9.0, 28.0)],
    'Reservoir Area': [('uniform', 50.0, 120.0), ('lognormal', 4.3, 0.2)],
    'Reservoir Thickness': [('uniform', 0.122, 0.299), ('triangular', 0.12, 0.2, 0.3), ('triangular', 0.12, 0.3, 0.3), ('triangular', 0.12, 0.12, 0.3)],
    'Reservoir Temperature': [('uniform', 130, 170), ('normal', 150, 8)],
    'Rejection Temperature': [('uniform', 20, 33)],
}
HIP_FAIL = {0.3: ('Reservoir Porosity', ('uniform', 30.0, 130.0)),        # > 100 % rejected: P ~ 0.30
            0.9: ('Reservoir Porosity', ('uniform', 91.0, 181.0))}
HIP_OUTPUTS = ['Producible Heat (reservoir)', 'Producible Electricity (reservoir)', 'Stored Heat (reservoir)']


def spell(rng, x):
    """One of the spellings of the number x that float() reads back as exactly x: plain, explicit plus sign, exponent
    notation, leading-dot decimals (negative numbers keep their minus sign)."""
    x = float(x)
    plain = repr(int(x)) if x == int(x) and abs(x) < 1e15 and rng.random() < 0.7 else repr(x)
    forms = [plain, plain, plain]
    if x > 0:
        forms.append('+' + plain)
    for digits in (1, 3, 17):
        e = f'{x:.{digits}e}'
        if float(e) == x:
            m, ex = e.split('e')
            m = m.rstrip('0').rstrip('.') if '.' in m else m
            forms.append(f'{m}e{int(ex)}')
            forms.append(f'{m}E{int(ex):+03d}')
            break
    if 0 < abs(x) < 1 and plain.lstrip('-').startswith('0.'):
        forms.append(plain.replace('0.', '.', 1))
    out = rng.choice(forms)
    assert float(out) == x, (out, x)
    return out


def _input_line(rng, nm, d):
    # the trial count of a binomial is read with int(): plain integer spelling only
    args = [str(x) if (d[0] == 'binomial' and i == 0) else spell(rng, x) for i, x in enumerate(d[1:])]
    return f'INPUT, {nm}, {d[0]}, ' + ', '.join(args)


def make_settings(rng, program, iterations, failure=0.0, n_inputs=None, n_outputs=None, kinds=None):
    table = GEO_INPUTS if program == 'GEOPHIRES' else HIP_INPUTS
    names = list(table)
    rng.shuffle(names)
    n_inputs = n_inputs or rng.randint(2, min(5, len(names)))
    chosen = []
    if kinds:
        # make sure each requested distribution kind appears
        for kind in kinds:
            for nm in names:
                if nm not in [c[0] for c in chosen] and any(d[0] == kind for d in table[nm]):
                    chosen.append((nm, next(d for d in table[nm] if d[0] == kind)))
                    break
    for nm in names:
        if len(chosen) >= n_inputs:
            break
        if nm not in [c[0] for c in chosen]:
            chosen.append((nm, rng.choice(table[nm])))
    if failure:
        fn, fd = (GEO_FAIL if program == 'GEOPHIRES' else HIP_FAIL)[failure]
        chosen = [c for c in chosen if c[0] != fn] + [(fn, fd)]
    outs_all = GEO_OUTPUTS if program == 'GEOPHIRES' else HIP_OUTPUTS
    # outputs must be listed in the order they appear in the report
    k = n_outputs or rng.randint(1, min(4, len(outs_all)))
    idx = sorted(rng.sample(range(len(outs_all)), k))
    outputs = [outs_all[i] for i in idx]
    # distribution arguments are written in every spelling of a number the settings reader accepts (sign, exponent, ...)
    lines = [_input_line(rng, nm, d) for nm, d in chosen]
    lines += [f'OUTPUT, {o}' for o in outputs]
    lines.append(f'ITERATIONS, {iterations}')
    return {'program': program, 'inputs': [(nm, list(d)) for nm, d in chosen], 'outputs': outputs, 'iterations': iterations,
            'text': '\n'.join(lines) + '\n', 'failure': failure}


def with_input(st, name, dist):
    """The same settings with input `name` drawn from `dist` (added, or replacing its earlier distribution)."""
    inputs = [(nm, d) for nm, d in st['inputs'] if nm != name] + [(name, list(dist))]
    lines = [f'INPUT, {nm}, {d[0]}, ' + ', '.join(str(x) for x in d[1:]) for nm, d in inputs]
    lines += [f'OUTPUT, {o}' for o in st['outputs']]
    lines.append(f'ITERATIONS, {st["iterations"]}')
    return dict(st, inputs=inputs, text='\n'.join(lines) + '\n')


def run_mc(settings, workers=None, delay=0.0, base_text=None):
    """Drive the real Monte-Carlo client once.  Returns the result file text, JSON text and the per-pid event logs."""
    from pathlib import Path
    import geophires_x.GEOPHIRESv3  # noqa  (import order)
    from geophires_monte_carlo import GeophiresMonteCarloClient, MonteCarloRequest, SimulationProgram
    from geophires_monte_carlo import MC_GeoPHIRES3 as MC
    import pylocker
    program = settings['program']
    tmp = tempfile.mkdtemp(prefix='gxv-mc-', dir=os.environ.get('GXV_TMP'))
    logdir = os.path.join(tmp, 'log')
    os.makedirs(logdir)
    tdir = os.path.join(tmp, 't')
    os.makedirs(tdir)
    base_text = base_text or (GEO_BASE if program == 'GEOPHIRES' else HIP_BASE)
    inp = Path(tmp, 'base.txt')
    inp.write_text(base_text, encoding='utf-8')
    sett = Path(tmp, 'settings.txt')
    sett.write_text(settings['text'], encoding='utf-8')
    outp = Path(tmp, 'MC_Result.txt')
    if settings.get('stale_lock'):
        # the lock file an earlier, killed run left next to the result file (pylocker: lock pass, time stamp, owner pid)
        import subprocess
        dead = subprocess.Popen([sys.executable, '-c', 'pass'])
        dead.wait()
        Path(tmp, '.lock').write_bytes(f'lock-pass-of-a-killed-run\n{0.0:.6f}\n{dead.pid}'.encode())
    saved_env = {k: os.environ.get(k) for k in ('GXV_MC_LOG_DIR', 'GXV_MC_NINPUTS', env.OBSERVER_ENV, env.GUARD, 'TMPDIR')}
    os.environ.update({'GXV_MC_LOG_DIR': logdir, 'GXV_MC_NINPUTS': str(len(settings['inputs'])),
                       env.OBSERVER_ENV: 'gxv.mcobs:hook', env.GUARD: '1', 'TMPDIR': tdir})
    saved_tmp = tempfile.tempdir
    tempfile.tempdir = tdir
    if program != 'GEOPHIRES':
        from . import mcobs
        mcobs.hip_wrap()
    real_ppe = concurrent.futures.ProcessPoolExecutor

    class ForcedPool(real_ppe):
        """Only presets max_workers; everything else is the real executor."""
        def __init__(self, *a, **k):
            if workers is not None:
                k['max_workers'] = workers
            super().__init__(*a, **k)

    enter0, exit0 = pylocker.Locker.__enter__, pylocker.Locker.__exit__
    if delay:
        def _enter(self):
            time.sleep(random.SystemRandom().uniform(0, delay))          # before competing for the lock
            r = enter0(self)
            time.sleep(random.SystemRandom().uniform(0, delay / 2))      # while holding it, before the write
            return r

        def _exit(self, *a):
            time.sleep(random.SystemRandom().uniform(0, delay / 2))      # while holding it, after the write
            return exit0(self, *a)
        pylocker.Locker.__enter__, pylocker.Locker.__exit__ = _enter, _exit
    concurrent.futures.ProcessPoolExecutor = ForcedPool
    cwd0 = os.getcwd()
    err = None
    t0 = time.time()
    import contextlib
    import io
    import logging
    logging.disable(logging.CRITICAL)
    try:
        with contextlib.redirect_stdout(io.StringIO()), contextlib.redirect_stderr(io.StringIO()):
            prog = {'GEOPHIRES': SimulationProgram.GEOPHIRES, 'HIP-RA-X': SimulationProgram.HIP_RA_X}[program]
            GeophiresMonteCarloClient().get_monte_carlo_result(MonteCarloRequest(prog, inp, sett, outp))
    except BaseException as ex:  # noqa
        if isinstance(ex, KeyboardInterrupt):
            raise
        err = f'{type(ex).__name__}: {str(ex)[:300]}'
    finally:
        logging.disable(logging.NOTSET)
        concurrent.futures.ProcessPoolExecutor = real_ppe
        pylocker.Locker.__enter__, pylocker.Locker.__exit__ = enter0, exit0
        tempfile.tempdir = saved_tmp
        for k, v in saved_env.items():
            if v is None:
                os.environ.pop(k, None)
            else:
                os.environ[k] = v
        with contextlib.suppress(OSError):
            os.chdir(cwd0)
    out = {'error': err, 'wall': time.time() - t0, 'result_text': None, 'json_text': None, 'events': [],
           'leaked_temp_files': len(os.listdir(tdir))}
    with contextlib.suppress(OSError):
        out['result_text'] = outp.read_text()
    with contextlib.suppress(OSError):
        out['json_text'] = outp.with_suffix('.json').read_text()
    for p in glob.glob(os.path.join(logdir, '*.jsonl')):
        with open(p, encoding='utf-8') as f:
            for ln in f:
                with contextlib.suppress(ValueError):
                    out['events'].append(json.loads(ln))
    shutil.rmtree(tmp, ignore_errors=True)
    return out


ROW_RE = re.compile(r'^((?:[^,()]*, )*)\(((?:[^:;()]+:[^:;()]*;)*)\)$')


def parse_result(text, settings):
    """header, rows [{'outputs': [str], 'inputs': [(name, valuestr)], 'raw': line}], bad lines, stats block dict."""
    lines = text.split('\n')
    if lines and lines[-1] == '':
        lines = lines[:-1]
    header = lines[0] if lines else ''
    first_out = settings['outputs'][0] + ':'
    end = len(lines)
    for i in range(1, len(lines)):
        if lines[i] == first_out:
            end = i
            break
    rows, bad = [], []
    for i in range(1, end):
        ln = lines[i]
        m = ROW_RE.match(ln)
        if not m:
            bad.append({'lineno': i, 'line': ln[:200]})
            continue
        outs = [t.strip() for t in m.group(1).split(', ') if t.strip() != '']
        inputs = []
        for part in m.group(2).split(';'):
            if part:
                k, v = part.split(':', 1)
                inputs.append((k, v))
        rows.append({'outputs': outs, 'inputs': inputs, 'raw': ln, 'key': m.group(2)})
    stats = {}
    cur = None
    for ln in lines[end:]:
        if ln.endswith(':') and ln[:-1] in settings['outputs'] and not ln.startswith(' '):
            cur = ln[:-1]
            stats[cur] = {}
        elif cur and ln.startswith('     ') and ':' in ln:
            k, v = ln.strip().split(':', 1)
            stats[cur][k.strip()] = v.strip()
    return header, rows, bad, stats


def tail_key(tail):
    """The row's '(name:value;...)' key as the driver builds it from the appended input lines."""
    return ''.join(ln.replace(', ', ':') + ';' for ln in tail)


def in_support(dist, x):
    kind = dist[0]
    p = [float(v) for v in dist[1:]]
    if kind == 'uniform':
        return p[0] <= x <= p[1]
    if kind == 'triangular':
        return p[0] <= x <= p[2]
    if kind == 'lognormal':
        return x > 0
    if kind == 'binomial':
        return float(x).is_integer() and 0 <= x <= p[0]
    return math.isfinite(x)


def cdf(dist):
    from scipy import stats
    kind = dist[0]
    p = [float(v) for v in dist[1:]]
    if kind == 'uniform':
        return stats.uniform(p[0], p[1] - p[0]).cdf
    if kind == 'normal':
        return stats.norm(p[0], p[1]).cdf
    if kind == 'triangular':
        return stats.triang((p[1] - p[0]) / (p[2] - p[0]), p[0], p[2] - p[0]).cdf
    if kind == 'lognormal':
        return stats.lognorm(p[1], scale=math.exp(p[0])).cdf
    return None
