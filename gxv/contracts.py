"""Runtime contracts on the repository's real functions, attached from the harness (nothing is edited in the repo).

icontract postconditions with *named* condition functions and an explicit error=; every condition records into the
monitor of its property and returns True, so a violation never aborts the run that other monitors are still
observing.  The repository binds these helpers with `from x import f` in several modules, so attach() rebinds every
alias of the original function object in sys.modules.  Every contract counts its evaluations (COUNTS); a check whose
deciding contract ran zero times is inconclusive.
"""
import collections
import math
import sys

import numpy as np

from .ref import econ as R
from .ref import energy as E
from .verdict import Mon, close, first_diff

MONS = {}
COUNTS = collections.Counter()
ENGINE = None
_ATTACHED = False
READ_EVENTS = []          # C07: one record per ReadParameter call (bounded)
READ_EVENTS_MAX = 20000


class ContractBroken(Exception):
    pass


def mon(prop):
    if prop not in MONS:
        MONS[prop] = Mon(prop)
    return MONS[prop]


def reset():
    MONS.clear()
    COUNTS.clear()
    del READ_EVENTS[:]


def dump():
    return {'mons': {p: m.dump() for p, m in MONS.items()}, 'counts': dict(COUNTS), 'engine': ENGINE}


def _rebind(orig, new, prefixes=('geophires_x', 'hip_ra_x', 'geophires_monte_carlo', 'geophires_x_client')):
    n = 0
    for name, mod in list(sys.modules.items()):
        if mod is None or not name.startswith(prefixes):
            continue
        for attr, val in list(vars(mod).items()):
            if val is orig:
                setattr(mod, attr, new)
                n += 1
    return n


def _ensure(cond):
    """icontract.ensure(cond, error=ContractBroken) or, if icontract is unavailable, a plain post-wrapper."""
    global ENGINE
    try:
        import icontract
        ENGINE = 'icontract ' + getattr(icontract, '__version__', '?')
        return icontract.ensure(cond, error=ContractBroken)
    except Exception:  # pragma: no cover
        ENGINE = 'plain-wrapper (icontract not importable)'
        import functools
        import inspect

        def deco(fn):
            sig = inspect.signature(fn)
            wanted = list(inspect.signature(cond).parameters)

            @functools.wraps(fn)
            def w(*a, **k):
                res = fn(*a, **k)
                ba = sig.bind(*a, **k)
                ba.apply_defaults()
                kw = {n: (res if n == 'result' else ba.arguments[n]) for n in wanted}
                cond(**kw)
                return res
            return w
        return deco


# ------------------------------------------------------------------------------------------------- condition functions

def integrate_matches_rule(series, _i, time_steps_per_year, utilization_factor, result):
    COUNTS['integrate_time_series_slice'] += 1
    m = mon('C02')
    try:
        want, lo, hi = E.annual_energy_kwh(series, _i, time_steps_per_year, utilization_factor)
    except Exception as ex:  # noqa
        m.inconclusive('contract:integrate', type(ex).__name__)
        return True
    m.check('contract:integrate', close(result, want, 1e-9, 1e-6), mechanism='C02/integrate-slice-not-documented-rule',
            i=int(_i), steps=int(time_steps_per_year), n=len(series), got=float(result), want=want)
    return True


def pricing_has_documented_shape(plantlifetime, StartPrice, EndPrice, EscalationStartYear, EscalationRate, PTCAddition,
                                 result):
    COUNTS['BuildPricingModel'] += 1
    m = mon('C16')
    want = R.price_schedule(plantlifetime, StartPrice, EndPrice, EscalationStartYear, EscalationRate, list(PTCAddition))
    d = first_diff(result, want, 1e-12, 1e-15)
    m.check('contract:price-schedule', d is None, mechanism='C16/price-schedule-shape', diff=d, life=plantlifetime,
            start=StartPrice, end=EndPrice, t0=EscalationStartYear, rate=EscalationRate)
    return True


def ptc_has_documented_shape(plantlifetime, duration, ptc_price, ptc_inflation_adjusted, inflation_rate, result):
    COUNTS['BuildPTCModel'] += 1
    m = mon('C16')
    want = R.ptc_schedule(plantlifetime, duration, ptc_price, ptc_inflation_adjusted, inflation_rate)
    d = first_diff(result, want, 1e-12, 1e-15)
    m.check('contract:ptc-schedule', d is None, mechanism='C16/ptc-schedule-shape', diff=d, life=plantlifetime,
            duration=duration, adjusted=bool(ptc_inflation_adjusted))
    return True


def revenue_is_energy_times_price(plantlifetime, ConstructionYears, Energy, Price, result):
    COUNTS['CalculateRevenue'] += 1
    m = mon('C04')
    cash, cum = result
    want = [0.0] * ConstructionYears + [Energy[t] * Price[t] / 1e6 for t in range(plantlifetime)]
    d = first_diff(cash, want, 1e-12, 1e-15)
    m.check('contract:revenue', d is None, mechanism='C04/contract-revenue-not-energy-times-price', diff=d,
            life=plantlifetime, cy=ConstructionYears)
    run = list(np.cumsum(want))
    d = first_diff(cum, run, 1e-9, 1e-12)
    m.check('contract:revenue-cumulative', d is None, mechanism='C04/contract-revenue-cumulative', diff=d)
    return True


def npv_is_discounted_sum(discount_rate_tenths, cashflow_series, discount_initial_year_cashflow, result):
    COUNTS['calculate_npv'] += 1
    m = mon('C04')
    try:
        want = R.npv(discount_rate_tenths, list(cashflow_series), bool(discount_initial_year_cashflow))
    except (ZeroDivisionError, OverflowError):
        m.inconclusive('contract:npv', 'reference')
        return True
    if any(v != v for v in cashflow_series) or want != want:
        # a cash-flow series that contains NaN (a run whose energy came out NaN) has no NPV to compare: not judged
        m.note('contract:npv-series-with-nan')
        return True
    scale = math.fsum(abs(v) for v in cashflow_series) or 1.0
    m.check('contract:npv', abs(float(result) - want) <= 1e-9 * scale, mechanism='C04/contract-npv', got=float(result),
            want=want, rate=discount_rate_tenths, excel=bool(discount_initial_year_cashflow))
    return True


def production_pressure_shape(project_lifetime_yr, timesteps_per_year, initial_pressure_kPa, overpressure_percentage,
                              depletion_rate, result):
    COUNTS['ReservoirPressurePredictor'] += 1
    m = mon('C15')
    n = project_lifetime_yr * timesteps_per_year
    pr = list(result)
    m.check('contract:production-pressure-length', len(pr) == n, mechanism='C15/contract-pressure-length', n=len(pr), want=n)
    if overpressure_percentage < 100.0 or not pr:
        return True
    hyd = initial_pressure_kPa
    if overpressure_percentage == 100.0:
        m.check('contract:production-pressure', all(p == hyd for p in pr), mechanism='C15/contract-pressure-not-hydrostatic')
        return True
    p0 = hyd * overpressure_percentage / 100.0
    m.check('contract:production-pressure-start', close(pr[0], p0, 1e-12), mechanism='C15/contract-initial-pressure',
            got=pr[0], want=p0)
    D = p0 - hyd
    nstar = 100.0 / depletion_rate * timesteps_per_year
    ok = True
    wit = None
    for t in range(1, len(pr)):
        if pr[t] > pr[t - 1] * (1 + 1e-12):
            ok, wit = False, {'t': t, 'rise': [pr[t - 1], pr[t]]}
            break
        if pr[t] < hyd * (1 - 1e-12):
            ok, wit = False, {'t': t, 'below_hydrostatic': pr[t], 'hyd': hyd}
            break
        if pr[t] > hyd * (1 + 1e-12) and nstar > 1:
            dec = (p0 - pr[t]) / t
            if not (D / nstar * (1 - 1e-9) <= dec <= D / (nstar - 1) * (1 + 1e-9)):
                ok, wit = False, {'t': t, 'decrement': dec, 'lo': D / nstar, 'hi': D / (nstar - 1)}
                break
    m.check('contract:production-pressure', ok, mechanism='C15/contract-production-pressure-shape', detail=wit,
            pct=overpressure_percentage, rate=depletion_rate, steps=timesteps_per_year)
    return True


def injection_pressure_shape(project_lifetime_yr, timesteps_per_year, initial_pressure_kPa, inflation_rate, result):
    COUNTS['InjectionReservoirPressurePredictor'] += 1
    m = mon('C15')
    n = project_lifetime_yr * timesteps_per_year
    want = [initial_pressure_kPa + t * inflation_rate / timesteps_per_year for t in range(n)]
    d = first_diff(result, want, 1e-12, 1e-9)
    m.check('contract:injection-pressure', d is None, mechanism='C15/contract-injection-pressure-shape', diff=d,
            rate=inflation_rate)
    return True


_ORIG = {}


def friction_not_larger_in_wider_well(model, Taverage, wellflowrate, welldiam, impedancemodelused, depth, result):
    """Shadow call: re-invoke the real WellPressureDrop with only the diameter enlarged; the frictional loss
    f * rho v^2/2 * depth/d must not grow anywhere along the series."""
    COUNTS['WellPressureDrop'] += 1
    m = mon('C15')
    orig = _ORIG['WellPressureDrop']
    try:
        _, f, v, rho = result
        base = np.asarray(f) * (np.asarray(rho) * np.asarray(v) ** 2 / 2.0) * (depth / welldiam) / 1e3
        for k in (1.1, 1.5, 2.0):
            _, f2, v2, rho2 = orig(model, Taverage, wellflowrate, welldiam * k, impedancemodelused, depth)
            wide = np.asarray(f2) * (np.asarray(rho2) * np.asarray(v2) ** 2 / 2.0) * (depth / (welldiam * k)) / 1e3
            bad = np.nonzero(wide > base * (1 + 1e-9) + 1e-12)[0]
            m.check('contract:friction-monotone-in-diameter', len(bad) == 0,
                    mechanism='C15/friction-loss-grows-with-diameter', k=k, diam=float(welldiam),
                    index=int(bad[0]) if len(bad) else None,
                    base=float(base[bad[0]]) if len(bad) else None, wide=float(wide[bad[0]]) if len(bad) else None)
    except Exception as ex:  # noqa
        m.inconclusive('contract:friction-monotone-in-diameter', type(ex).__name__)
    return True


def one_well_cost_follows_correlation(model, depth_m, well_correlation, vertical_drilling_cost_per_m, fixed_well_cost_name,
                                      well_cost_adjustment_factor, result):
    COUNTS['calculate_cost_of_one_vertical_well'] += 1
    m = mon('C03')
    try:
        name = getattr(well_correlation, 'name', str(well_correlation))
        simple = name == 'SIMPLE' or depth_m < 500.0
        base = vertical_drilling_cost_per_m * depth_m * 1e-6 if simple else well_correlation.calculate_cost_MUSD(depth_m)
        want = well_cost_adjustment_factor * base
    except Exception as ex:  # noqa
        m.inconclusive('contract:one-well-cost', type(ex).__name__)
        return True
    m.check('contract:one-well-cost', close(result, want, 1e-12, 1e-15), mechanism='C03/contract-one-well-cost',
            depth=float(depth_m), correlation=name, factor=float(well_cost_adjustment_factor), got=float(result), want=want)
    return True


# ------------------------------------------------------------------------------------------------- ReadParameter (C07)

def _wrap_read_parameter(orig):
    import functools

    @functools.wraps(orig)
    def ReadParameter(ParameterReadIn, ParamToModify, model):
        COUNTS['ReadParameter'] += 1
        p = ParamToModify
        before = p.value if not isinstance(p.value, list) else list(p.value)
        sval = ParameterReadIn.sValue
        rec = {'name': getattr(p, 'Name', ''), 'key': getattr(ParameterReadIn, 'Name', ''), 'cls': type(p).__name__,
               'sval': sval, 'before': before,
               'min': getattr(p, 'Min', None), 'max': getattr(p, 'Max', None),
               'allow': list(p.AllowableRange) if getattr(p, 'AllowableRange', None) is not None and type(p).__name__ == 'intParameter' else None,
               'default': getattr(p, 'DefaultValue', None)}
        try:
            out = orig(ParameterReadIn, ParamToModify, model)
        except BaseException as ex:  # noqa
            rec['raised'] = type(ex).__name__
            rec['msg'] = str(ex)[:300]
            if len(READ_EVENTS) < READ_EVENTS_MAX:
                READ_EVENTS.append(rec)
            raise
        rec['raised'] = None
        rec['after'] = p.value if not isinstance(p.value, list) else list(p.value)
        rec['obj'] = p                     # live reference: lets a later hook read the value that finally stands
        rec['sval_after'] = ParameterReadIn.sValue
        rec['provided'] = getattr(p, 'Provided', None)
        rec['units'] = str(getattr(getattr(p, 'CurrentUnits', None), 'value', getattr(p, 'CurrentUnits', None)))
        if len(READ_EVENTS) < READ_EVENTS_MAX:
            READ_EVENTS.append(rec)
        return out
    return ReadParameter


# ------------------------------------------------------------------------------------------------------------ attach

def attach(which=None):
    """Attach the contracts (idempotent).  `which`: optional set of names to restrict to."""
    global _ATTACHED
    if _ATTACHED:
        return ENGINE
    import geophires_x.GEOPHIRESv3  # noqa  first: the package has import cycles that only resolve from the top
    import geophires_x.Model  # noqa  (pulls in every module that may hold an alias)
    import geophires_x.Economics as Ec
    import geophires_x.Parameter as Pa
    import geophires_x.SurfacePlant as Sp
    import geophires_x.WellBores as Wb
    try:
        import hip_ra_x.hip_ra_x  # noqa
    except Exception:
        pass

    def want(n):
        return which is None or n in which

    if want('integrate_time_series_slice'):
        orig = Sp.SurfacePlant.__dict__['integrate_time_series_slice'].__func__
        Sp.SurfacePlant.integrate_time_series_slice = staticmethod(_ensure(integrate_matches_rule)(orig))
    for modname, mod, fname, cond in (
            ('Ec', Ec, 'BuildPricingModel', pricing_has_documented_shape),
            ('Ec', Ec, 'BuildPTCModel', ptc_has_documented_shape),
            ('Ec', Ec, 'CalculateRevenue', revenue_is_energy_times_price),
            ('Ec', Ec, 'calculate_npv', npv_is_discounted_sum),
            ('Ec', Ec, 'calculate_cost_of_one_vertical_well', one_well_cost_follows_correlation),
            ('Wb', Wb, 'ReservoirPressurePredictor', production_pressure_shape),
            ('Wb', Wb, 'InjectionReservoirPressurePredictor', injection_pressure_shape),
            ('Wb', Wb, 'WellPressureDrop', friction_not_larger_in_wider_well)):
        if not want(fname):
            continue
        orig = getattr(mod, fname)
        _ORIG[fname] = orig
        wrapped = _ensure(cond)(orig)
        _rebind(orig, wrapped)
    if want('ReadParameter'):
        orig = Pa.ReadParameter
        _ORIG['ReadParameter'] = orig
        _rebind(orig, _wrap_read_parameter(orig))
    _ATTACHED = True
    return ENGINE
