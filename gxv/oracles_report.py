"""C09: the case report states what was computed.

A hand-written report map (label within section -> expression over the pre-print snapshot, with its unit) is compared
with an independent tokenisation of the report text.  Lines that are not in the map are counted as unmapped; they are
neither evidence nor alarms."""
import math

import numpy as np

from . import report as RP
from . import units as U
from .oracles_econ import COGEN, _iv, config

S_SUM = 'SUMMARY OF RESULTS'
S_ECO = 'ECONOMIC PARAMETERS'
S_ENG = 'ENGINEERING PARAMETERS'
S_RES = 'RESOURCE CHARACTERISTICS'
S_RPA = 'RESERVOIR PARAMETERS'
S_SIM = 'RESERVOIR SIMULATION RESULTS'
S_CAP = 'CAPITAL COSTS (M$)'
S_OAM = 'OPERATING AND MAINTENANCE COSTS (M$/yr)'
S_SUR = 'SURFACE EQUIPMENT SIMULATION RESULTS'
S_EXT = 'EXTENDED ECONOMICS'

T_PROD = 'HEATING, COOLING AND/OR ELECTRICITY PRODUCTION PROFILE'
T_ANN = 'ANNUAL HEATING, COOLING AND/OR ELECTRICITY PRODUCTION PROFILE'
T_REV = 'REVENUE & CASHFLOW PROFILE'
T_EXT = 'EXTENDED ECONOMIC PROFILE'
T_SDAC = 'S-DAC-GT PROFILE'
S_SDAC = 'S-DAC-GT ECONOMICS'
T_OVP = 'RESERVOIR POWER REQUIRED PROFILES'


def _a(v):
    return np.asarray(v, dtype=float)


def _pv(p):
    return (p.value, p.CurrentUnits)


def build_map(s):
    """(section, label) -> (expected value, unit text) from the snapshot taken before PrintOutputs."""
    cfg = config(s)
    sp, wb, rs, ec = s.surfaceplant, s.wellbores, s.reserv, s.economics
    eu, pt, L = cfg['enduse'], cfg['ptype'], cfg['life']
    has_el = eu == 1 or eu in COGEN
    M = {}

    def put(sec, label, value, unit):
        M[(sec, label)] = (value, unit)

    std = s.classes.get('outputs') == 'Outputs' and s.classes.get('economics') in ('Economics', 'SBTEconomics') \
        and s.classes.get('wellbores') in ('WellBores', 'SBTWellbores') and s.classes.get('surfaceplant', '').startswith('SurfacePlant') \
        and s.classes.get('surfaceplant') not in ('SurfacePlantAGS', 'SurfacePlantSUTRA', 'SurfacePlant')
    if s.classes.get('outputs') == 'SUTRAOutputs':
        return _build_map_sutra(s, cfg, M, put), cfg, True
    if not std:
        return M, cfg, False
    MW = 'MW'
    # ------------------------------------------------------------------------------------------------- summary
    if has_el:
        put(S_SUM, 'Average Net Electricity Production', float(np.mean(_a(sp.NetElectricityProduced.value))),
            sp.NetElectricityProduced.CurrentUnits)
    if eu != 1:
        put(S_SUM, 'Average Direct-Use Heat Production', float(np.mean(_a(sp.HeatProduced.value))), sp.HeatProduced.CurrentUnits)
    if pt == 7 and s.classes['surfaceplant'] == 'SurfacePlantDistrictHeating':
        put(S_SUM, 'Annual District Heating Demand', float(np.mean(_a(sp.annual_heating_demand.value))),
            sp.annual_heating_demand.CurrentUnits)
        put(S_SUM, 'Average Annual Geothermal Heat Production', float(np.sum(_a(sp.dh_geothermal_heating.value) * 24) / L / 1e3),
            'GWh/year')
        put(S_SUM, 'Average Annual Peaking Fuel Heat Production', float(np.sum(_a(sp.dh_natural_gas_heating.value) * 24) / L / 1e3),
            'GWh/year')
    if pt == 5 and s.classes['surfaceplant'] == 'SurfacePlantAbsorptionChiller':
        put(S_SUM, 'Average Cooling Production', float(np.mean(_a(sp.cooling_produced.value))), sp.cooling_produced.CurrentUnits)
    if eu == 1 or eu in COGEN:
        put(S_SUM, 'Electricity breakeven price', ec.LCOE.value, ec.LCOE.CurrentUnits)
    if eu in COGEN or (eu == 2 and pt != 5):
        put(S_SUM, 'Direct-Use heat breakeven price (LCOH)', ec.LCOH.value, ec.LCOH.CurrentUnits)
    if eu == 2 and pt == 5:
        put(S_SUM, 'Direct-Use Cooling Breakeven Price (LCOC)', ec.LCOC.value, ec.LCOC.CurrentUnits)
    for sec, a, b in ((S_SUM, 'Number of production wells', 'Number of injection wells'),
                      (S_ENG, 'Number of Production Wells', 'Number of Injection Wells')):
        put(sec, a, wb.nprod.value, 'count')
        put(sec, b, wb.ninj.value, 'count')
    for sec in (S_SUM, S_ENG):
        put(sec, 'Flowrate per production well', wb.prodwellflowrate.value, wb.prodwellflowrate.CurrentUnits)
        put(sec, 'Well depth', rs.depth.value, rs.depth.CurrentUnits)
    nseg = int(rs.numseg.value)
    grad = list(rs.gradient.value)
    gunit = rs.gradient.CurrentUnits
    for sec in (S_SUM, S_RES):
        if nseg == 1:
            put(sec, 'Geothermal gradient', grad[0], gunit)
        else:
            for k in range(1, nseg + 1):
                put(sec, f'Segment {k}   Geothermal gradient', grad[k - 1], gunit)
                if k < nseg:
                    put(sec, f'Segment {k}   Thickness', rs.layerthickness.value[k - 1], rs.layerthickness.CurrentUnits)
    if ec.DoCarbonCalculations.value:
        put(S_SUM, 'Total Avoided Carbon Emissions', ec.CarbonThatWouldHaveBeenProducedTotal.value,
            ec.CarbonThatWouldHaveBeenProducedTotal.CurrentUnits)
    # ------------------------------------------------------------------------------------------------- economic
    em = cfg['econ']
    if em == 1:
        put(S_ECO, 'Fixed Charge Rate (FCR)', ec.FCR.value, ec.FCR.CurrentUnits)
    elif em == 2:
        put(S_ECO, ec.interest_rate.Name, ec.interest_rate.value, ec.interest_rate.CurrentUnits)
    put(S_ECO, 'Accrued financing during construction', ec.inflrateconstruction.value, ec.inflrateconstruction.CurrentUnits)
    put(S_ECO, 'Project lifetime', sp.plant_lifetime.value, sp.plant_lifetime.CurrentUnits)
    put(S_ECO, 'Capacity factor', sp.utilization_factor.value, sp.utilization_factor.CurrentUnits)
    put(S_ECO, 'Project NPV', ec.ProjectNPV.value, ec.ProjectNPV.CurrentUnits)
    put(S_ECO, 'Project IRR', ec.ProjectIRR.value, ec.ProjectIRR.CurrentUnits)
    put(S_ECO, 'Project VIR=PI=PIR', ec.ProjectVIR.value, '')
    put(S_ECO, 'Project MOIC', ec.ProjectMOIC.value, '')
    pb = float(ec.ProjectPaybackPeriod.value)
    put(S_ECO, 'Project Payback Period', pb if pb > 0 else None, ec.ProjectPaybackPeriod.CurrentUnits)
    if eu in COGEN:
        put(S_ECO, 'CHP: Percent cost allocation for electrical plant', ec.CAPEX_heat_electricity_plant_ratio.value, '')
    if eu == 1:
        put(S_ECO, 'Estimated Jobs Created', ec.jobs_created.value, 'count')
    # ------------------------------------------------------------------------------------------------- engineering
    put(S_ENG, 'Water loss rate', rs.waterloss.value, rs.waterloss.CurrentUnits)
    put(S_ENG, 'Pump efficiency', sp.pump_efficiency.value, sp.pump_efficiency.CurrentUnits)
    put(S_ENG, 'Injection temperature', wb.Tinj.value, wb.Tinj.CurrentUnits)
    closed_loop = bool(wb.IsAGS.value) if wb.has('IsAGS') else False      # the writer drops the reservoir blocks then
    if wb.rameyoptionprod.value:
        put(S_ENG, 'Average production well temperature drop', float(np.mean(_a(wb.ProdTempDrop.value))), wb.ProdTempDrop.CurrentUnits)
        if not closed_loop:
            put(S_SIM, 'Average Production Well Temperature Drop', float(np.mean(_a(wb.ProdTempDrop.value))), wb.ProdTempDrop.CurrentUnits)
    else:
        put(S_ENG, 'Constant production well temperature drop', wb.tempdropprod.value, wb.tempdropprod.CurrentUnits)
        if not closed_loop:
            put(S_SIM, 'Wellbore Heat Transmission Model = Constant Temperature Drop', wb.tempdropprod.value, wb.tempdropprod.CurrentUnits)
    put(S_ENG, 'Injection well casing ID', wb.injwelldiam.value, wb.injwelldiam.CurrentUnits)
    put(S_ENG, 'Production well casing ID', wb.prodwelldiam.value, wb.prodwelldiam.CurrentUnits)
    put(S_ENG, 'Number of times redrilling', wb.redrill.value, 'count')
    # ------------------------------------------------------------------------------------------------- resource
    put(S_RES, 'Maximum reservoir temperature', rs.Tmax.value, rs.Tmax.CurrentUnits)
    put(S_RES, 'Number of segments', nseg, 'count')
    # ------------------------------------------------------------------------------------------------- reservoir
    # closed-loop wellbore classes set IsAGS: the writer replaces the reservoir blocks by a one-line notice
    is_ags = bool(wb.IsAGS.value) if wb.has('IsAGS') else False

    def putr(sec, label, value, unit):
        if not is_ags:
            put(sec, label, value, unit)
    rcls = s.classes.get('reserv')
    if rcls == 'SFReservoir':
        putr(S_RPA, 'm/A Drawdown Parameter', rs.drawdp.value, rs.drawdp.CurrentUnits)
    elif rcls == 'TDPReservoir':
        putr(S_RPA, 'Annual Thermal Drawdown', rs.drawdp.value, rs.drawdp.CurrentUnits)
    putr(S_RPA, 'Bottom-hole temperature', rs.Trock.value, rs.Trock.CurrentUnits)
    putr(S_RPA, 'Reservoir volume', rs.resvolcalc.value, rs.resvol.CurrentUnits)
    if wb.impedancemodelused.value:
        putr(S_RPA, 'Reservoir impedance', wb.impedance.value / 1000.0, wb.impedance.CurrentUnits)
    else:
        if wb.overpressure_percentage.Provided:
            putr(S_RPA, 'Average reservoir pressure', wb.average_production_reservoir_pressure.value,
                wb.average_production_reservoir_pressure.CurrentUnits)
        else:
            putr(S_RPA, 'Reservoir hydrostatic pressure', _a(wb.production_reservoir_pressure.value)[0],
                wb.production_reservoir_pressure.CurrentUnits)
        putr(S_RPA, 'Plant outlet pressure', sp.plant_outlet_pressure.value, sp.plant_outlet_pressure.CurrentUnits)
        if wb.productionwellpumping.value:
            putr(S_RPA, 'Production wellhead pressure', wb.Pprodwellhead.value, wb.Pprodwellhead.CurrentUnits)
            putr(S_RPA, 'Productivity Index', wb.PI.value, wb.PI.CurrentUnits)
        putr(S_RPA, 'Injectivity Index', wb.II.value, wb.II.CurrentUnits)
    putr(S_RPA, 'Reservoir density', rs.rhorock.value, rs.rhorock.CurrentUnits)
    if wb.rameyoptionprod.value or rcls in ('MPFReservoir', 'LHSReservoir', 'SFReservoir'):
        putr(S_RPA, 'Reservoir thermal conductivity', rs.krock.value, rs.krock.CurrentUnits)
    if rcls in ('MPFReservoir', 'LHSReservoir'):
        shape = getattr(rs.fracshape.value, 'name', str(rs.fracshape.value))
        if shape in ('CIRCULAR_AREA', 'CIRCULAR_DIAMETER'):
            putr(S_RPA, 'Well separation: fracture diameter', rs.fracheightcalc.value, rs.fracheight.CurrentUnits)
        else:
            putr(S_RPA, 'Well separation: fracture height', rs.fracheightcalc.value, rs.fracheight.CurrentUnits)
        if shape == 'RECTANGULAR':
            putr(S_RPA, 'Fracture width', rs.fracwidthcalc.value, rs.fracwidth.CurrentUnits)
        putr(S_RPA, 'Fracture area', rs.fracareacalc.value, rs.fracarea.CurrentUnits)
    volopt = getattr(rs.resvoloption.value, 'name', str(rs.resvoloption.value))
    if volopt in ('FRAC_NUM_SEP', 'RES_VOL_FRAC_SEP'):
        putr(S_RPA, 'Number of fractures', rs.fracnumbcalc.value, 'count')
        putr(S_RPA, 'Fracture separation', rs.fracsepcalc.value, rs.fracsep.CurrentUnits)
    putr(S_RPA, 'Reservoir heat capacity', rs.cprock.value, rs.cprock.CurrentUnits)
    if rcls == 'LHSReservoir':
        putr(S_RPA, 'Reservoir porosity', rs.porrock.value, rs.porrock.CurrentUnits)
    # ------------------------------------------------------------------------------------------------- simulation
    tp = _a(wb.ProducedTemperature.value)
    tu = wb.ProducedTemperature.CurrentUnits
    put(S_SIM, 'Maximum Production Temperature', float(tp.max()), tu)
    put(S_SIM, 'Average Production Temperature', float(tp.mean()), tu)
    put(S_SIM, 'Minimum Production Temperature', float(tp.min()), tu)
    put(S_SIM, 'Initial Production Temperature', float(tp[0]), tu)
    putr(S_SIM, 'Average Reservoir Heat Extraction', float(np.mean(_a(sp.HeatExtracted.value))), sp.HeatExtracted.CurrentUnits)
    if wb.impedancemodelused.value:
        putr(S_SIM, 'Total Average Pressure Drop', float(np.mean(_a(wb.DPOverall.value))), wb.DPOverall.CurrentUnits)
        putr(S_SIM, 'Average Injection Well Pressure Drop', float(np.mean(_a(wb.DPInjWell.value))), wb.DPInjWell.CurrentUnits)
        putr(S_SIM, 'Average Reservoir Pressure Drop', float(np.mean(_a(wb.DPReserv.value))), wb.DPReserv.CurrentUnits)
        putr(S_SIM, 'Average Production Well Pressure Drop', float(np.mean(_a(wb.DPProdWell.value))), wb.DPProdWell.CurrentUnits)
        putr(S_SIM, 'Average Buoyancy Pressure Drop', float(np.mean(_a(wb.DPBouyancy.value))), wb.DPBouyancy.CurrentUnits)
    else:
        putr(S_SIM, 'Average Injection Well Pump Pressure Drop', float(np.mean(_a(wb.DPInjWell.value))), wb.DPInjWell.CurrentUnits)
        if wb.productionwellpumping.value:
            putr(S_SIM, 'Average Production Well Pump Pressure Drop', float(np.mean(_a(wb.DPProdWell.value))), wb.DPProdWell.CurrentUnits)
    # ------------------------------------------------------------------------------------------------- capital costs
    cu = ec.CCap.CurrentUnits
    nwells = int(wb.nprod.value) + int(wb.ninj.value)
    if not ec.totalcapcost.Valid:
        put(S_CAP, 'Drilling and completion costs', ec.Cwell.value, ec.Cwell.CurrentUnits)
        lat = float(ec.cost_lateral_section.value) if ec.has('cost_lateral_section') else 0.0
        c1p, c1i = float(ec.cost_one_production_well.value), float(ec.cost_one_injection_well.value)
        if lat > 0:
            put(S_CAP, 'Drilling and completion costs per vertical production well', c1p, ec.cost_one_production_well.CurrentUnits)
            put(S_CAP, 'Drilling and completion costs per vertical injection well', c1i, ec.cost_one_injection_well.CurrentUnits)
            if wb.has('numnonverticalsections') and float(wb.numnonverticalsections.value) > 0:
                # the figure per section is the lateral total over the number of sections, under the total's unit label
                put(S_CAP, 'Drilling and completion costs per non-vertical section', lat / float(wb.numnonverticalsections.value),
                    ec.cost_lateral_section.CurrentUnits)
        elif round(c1p, 4) != round(c1i, 4) and c1i != -1:
            put(S_CAP, 'Drilling and completion costs per production well', c1p, ec.cost_one_production_well.CurrentUnits)
            put(S_CAP, 'Drilling and completion costs per injection well', c1i, ec.cost_one_injection_well.CurrentUnits)
        else:
            put(S_CAP, 'Drilling and completion costs per well', float(ec.Cwell.value) / nwells, ec.Cwell.CurrentUnits)
        put(S_CAP, 'Stimulation costs', ec.Cstim.value, ec.Cstim.CurrentUnits)
        put(S_CAP, 'Surface power plant costs', ec.Cplant.value, ec.Cplant.CurrentUnits)
        if pt == 5:
            put(S_CAP, 'of which Absorption Chiller Cost', ec.chillercapex.value, ec.Cplant.CurrentUnits)
        if pt == 6:
            put(S_CAP, 'of which Heat Pump Cost', ec.heatpumpcapex.value, ec.Cplant.CurrentUnits)
        if pt == 7:
            put(S_CAP, 'of which Peaking Boiler Cost', ec.peakingboilercost.value, ec.peakingboilercost.CurrentUnits)
            put(S_CAP, 'District Heating System Cost', ec.dhdistrictcost.value, ec.dhdistrictcost.CurrentUnits)
        put(S_CAP, 'Field gathering system costs', ec.Cgath.value, ec.Cgath.CurrentUnits)
        if float(sp.piping_length.value) > 0:
            put(S_CAP, 'Transmission pipeline cost', ec.Cpiping.value, ec.Cpiping.CurrentUnits)
        put(S_CAP, 'Total surface equipment costs', float(ec.Cplant.value) + float(ec.Cgath.value), ec.Cplant.CurrentUnits)
        put(S_CAP, 'Exploration costs', ec.Cexpl.value, ec.Cexpl.CurrentUnits)
    elif int(wb.redrill.value) > 0:
        put(S_CAP, 'Drilling and completion costs (for redrilling)', ec.Cwell.value, ec.Cwell.CurrentUnits)
        put(S_CAP, 'Drilling and completion costs per redrilled well', float(ec.Cwell.value) / nwells, ec.Cwell.CurrentUnits)
        put(S_CAP, 'Stimulation costs (for redrilling)', ec.Cstim.value, ec.Cstim.CurrentUnits)
    if ec.RITCValue.value:
        put(S_CAP, 'Investment Tax Credit', -1.0 * float(ec.RITCValue.value), ec.RITCValue.CurrentUnits)
    put(S_CAP, 'Total capital costs', ec.CCap.value, cu)
    if em == 1:
        put(S_CAP, 'Annualized capital costs', float(ec.CCap.value) * (1 + float(ec.inflrateconstruction.value)) * float(ec.FCR.value), cu)
    # ------------------------------------------------------------------------------------------------- O&M
    ou = ec.Coam.CurrentUnits
    if not ec.oamtotalfixed.Valid:
        put(S_OAM, 'Wellfield maintenance costs', ec.Coamwell.value, ec.Coamwell.CurrentUnits)
        put(S_OAM, 'Power plant maintenance costs', ec.Coamplant.value, ec.Coamplant.CurrentUnits)
        put(S_OAM, 'Water costs', ec.Coamwater.value, ec.Coamwater.CurrentUnits)
        if pt in (9, 5, 6, 7):
            put(S_OAM, 'Average Reservoir Pumping Cost', ec.averageannualpumpingcosts.value, ec.averageannualpumpingcosts.CurrentUnits)
        if pt == 5:
            put(S_OAM, 'Absorption Chiller O&M Cost', ec.chilleropex.value, ec.chilleropex.CurrentUnits)
        if pt == 6:
            put(S_OAM, 'Average Heat Pump Electricity Cost', ec.averageannualheatpumpelectricitycost.value,
                ec.averageannualheatpumpelectricitycost.CurrentUnits)
        if pt == 7:
            put(S_OAM, 'Annual District Heating O&M Cost', ec.dhdistrictoandmcost.value, ec.dhdistrictoandmcost.CurrentUnits)
            put(S_OAM, 'Average Annual Peaking Fuel Cost', ec.averageannualngcost.value, ec.averageannualngcost.CurrentUnits)
        put(S_OAM, 'Total operating and maintenance costs', float(ec.Coam.value) + float(ec.averageannualpumpingcosts.value) +
            float(ec.averageannualheatpumpelectricitycost.value), ou)
    else:
        put(S_OAM, 'Total operating and maintenance costs', ec.Coam.value, ou)
    # ------------------------------------------------------------------------------------------------- surface equipment
    if has_el:
        el = _a(sp.ElectricityProduced.value)
        ne = _a(sp.NetElectricityProduced.value)
        eu_ = sp.ElectricityProduced.CurrentUnits
        put(S_SUR, 'Initial geofluid availability', _a(sp.Availability.value)[0], sp.Availability.CurrentUnits)
        for nm, arr in (('Total', el), ('Net', ne)):
            put(S_SUR, f'Maximum {nm} Electricity Generation', float(arr.max()), eu_)
            put(S_SUR, f'Average {nm} Electricity Generation', float(arr.mean()), eu_)
            put(S_SUR, f'Minimum {nm} Electricity Generation', float(arr.min()), eu_)
            put(S_SUR, f'Initial {nm} Electricity Generation', float(arr[0]), eu_)
        put(S_SUR, 'Average Annual Total Electricity Generation', float(np.mean(_a(sp.TotalkWhProduced.value))), 'kWh')
        put(S_SUR, 'Average Annual Net Electricity Generation', float(np.mean(_a(sp.NetkWhProduced.value))), 'kWh')
        pp = _a(wb.PumpingPower.value)
        if pp[0] > 0:
            put(S_SUR, 'Initial pumping power/net installed power', float(pp[0] / ne[0]), '')
    if eu != 1:
        hp = _a(sp.HeatProduced.value)
        hu = sp.HeatProduced.CurrentUnits
        put(S_SUR, 'Maximum Net Heat Production', float(hp.max()), hu)
        put(S_SUR, 'Average Net Heat Production', float(hp.mean()), hu)
        put(S_SUR, 'Minimum Net Heat Production', float(hp.min()), hu)
        put(S_SUR, 'Initial Net Heat Production', float(hp[0]), hu)
        put(S_SUR, 'Average Annual Heat Production', float(np.mean(_a(sp.HeatkWhProduced.value))), 'kWh')
    if pt == 6 and s.classes['surfaceplant'] == 'SurfacePlantHeatPump':
        put(S_SUR, 'Average Annual Heat Pump Electricity Use', float(np.mean(_a(sp.heat_pump_electricity_kwh_used.value))), 'kWh/year')
    if pt == 5 and s.classes['surfaceplant'] == 'SurfacePlantAbsorptionChiller':
        cp = _a(sp.cooling_produced.value)
        cu_ = sp.cooling_produced.CurrentUnits
        put(S_SUR, 'Maximum Cooling Production', float(cp.max()), cu_)
        put(S_SUR, 'Average Cooling Production', float(cp.mean()), cu_)
        put(S_SUR, 'Minimum Cooling Production', float(cp.min()), cu_)
        put(S_SUR, 'Initial Cooling Production', float(cp[0]), cu_)
        put(S_SUR, 'Average Annual Cooling Production', float(np.mean(_a(sp.cooling_kWh_Produced.value))), 'kWh/year')
    if pt == 7 and s.classes['surfaceplant'] == 'SurfacePlantDistrictHeating':
        put(S_SUR, 'Annual District Heating Demand', float(np.mean(_a(sp.annual_heating_demand.value))), sp.annual_heating_demand.CurrentUnits)
        for nm, prm in (('Daily District Heating Demand', sp.daily_heating_demand),
                        ('Geothermal Heating Production', sp.dh_geothermal_heating),
                        ('Peaking Boiler Heat Production', sp.dh_natural_gas_heating)):
            arr = _a(prm.value)
            put(S_SUR, 'Maximum ' + nm, float(arr.max()), prm.CurrentUnits)
            put(S_SUR, 'Average ' + nm, float(arr.mean()), prm.CurrentUnits)
            put(S_SUR, 'Minimum ' + nm, float(arr.min()), prm.CurrentUnits)
    put(S_SUR, 'Average Pumping Power', float(np.mean(_a(wb.PumpingPower.value))), wb.PumpingPower.CurrentUnits)
    hpce = sp.get('heat_to_power_conversion_efficiency')
    if hpce is not None and hpce.value is not None:
        put(S_SUR, 'Heat to Power Conversion Efficiency', hpce.value, hpce.CurrentUnits)
    # ------------------------------------------------------------------------------------------------- add-ons
    if cfg['addons']:
        ae = s.addeconomics
        if float(ec.LCOE.value) > -999.0:
            put(S_EXT, 'Adjusted Project LCOE (after incentives, grants, AddOns,etc)', ec.LCOE.value, ec.LCOE.CurrentUnits)
        if float(ec.LCOH.value) > -999.0:
            put(S_EXT, 'Adjusted Project LCOH (after incentives, grants, AddOns,etc)', ec.LCOH.value, ec.LCOH.CurrentUnits)
        put(S_EXT, 'Adjusted Project CAPEX (after incentives, grants, AddOns, etc)', ae.AdjustedProjectCAPEX.value, ae.AdjustedProjectCAPEX.CurrentUnits)
        put(S_EXT, 'Adjusted Project OPEX (after incentives, grants, AddOns, etc)', ae.AdjustedProjectOPEX.value, ae.AdjustedProjectOPEX.CurrentUnits)
        put(S_EXT, 'Project NPV   (including AddOns)', ae.ProjectNPV.value, ae.ProjectNPV.CurrentUnits)
        put(S_EXT, 'Project IRR   (including AddOns)', ae.ProjectIRR.value, ae.ProjectIRR.CurrentUnits)
        put(S_EXT, 'Project VIR=PI=PIR   (including AddOns)', ae.ProjectVIR.value, '')
        put(S_EXT, 'Project MOIC  (including AddOns)', ae.ProjectMOIC.value, '')
        if float(ae.AddOnCAPEXTotal.value) + float(ae.AddOnOPEXTotalPerYear.value) != 0:
            put(S_EXT, 'Total Add-on CAPEX', ae.AddOnCAPEXTotal.value, ae.AddOnCAPEXTotal.CurrentUnits)
            put(S_EXT, 'Total Add-on OPEX', ae.AddOnOPEXTotalPerYear.value, ae.AddOnOPEXTotalPerYear.CurrentUnits)
            put(S_EXT, 'Total Add-on Net Elec', ae.AddOnElecGainedTotalPerYear.value, ae.AddOnElecGainedTotalPerYear.CurrentUnits)
            put(S_EXT, 'Total Add-on Net Heat', ae.AddOnHeatGainedTotalPerYear.value, ae.AddOnHeatGainedTotalPerYear.CurrentUnits)
            put(S_EXT, 'Total Add-on Profit', ae.AddOnProfitGainedTotalPerYear.value, ae.AddOnProfitGainedTotalPerYear.CurrentUnits)
            put(S_EXT, 'AddOns Payback Period', ae.AddOnPaybackPeriod.value, ae.AddOnPaybackPeriod.CurrentUnits)
    # ------------------------------------------------------------------------------------------------- S-DAC-GT
    if cfg['sdac']:
        sd = s.sdacgteconomics
        for lab, prm in (('LCOD using grid-based electricity only', sd.LCOD_elec), ('LCOD using natural gas only', sd.LCOD_ng),
                         ('LCOD using geothermal energy only', sd.LCOD_geo), ('Geothermal LCOH', sd.LCOH),
                         ('Total Tonnes of CO2 Captured', sd.CarbonExtractedTotal)):
            put(S_SDAC, lab, prm.value, prm.CurrentUnits)
        # fractions that the writer multiplies by 100 and labels '%'
        for lab, prm in (('CO2 Intensity using grid-based electricity only', sd.CO2total_elec),
                         ('CO2 Intensity using natural gas only', sd.CO2total_ng),
                         ('CO2 Intensity using geothermal energy only', sd.CO2total_geo),
                         ('Geothermal Ratio (electricity vs heat)', sd.percent_thermal_energy_going_to_heat),
                         ('Percent Energy Devoted To Process', sd.EnergySplit)):
            put(S_SDAC, lab, float(prm.value) * 100.0, '%')
        put(S_SDAC, 'Total Cost of Capture', float(_a(sd.S_DAC_GTCummCashFlow.value)[-1]), sd.S_DAC_GTCummCashFlow.CurrentUnits)
    return M, cfg, True


def _build_map_sutra(s, cfg, M, put):
    """Report map of the SUTRA (reservoir thermal energy storage) writer, src/geophires_x/SUTRAOutputs.py."""
    sp, wb, rs, ec = s.surfaceplant, s.wellbores, s.reserv, s.economics
    put(S_SUM, 'Direct-Use heat breakeven price', ec.LCOH.value, ec.LCOH.CurrentUnits)
    flow = float(np.mean(np.abs(_a(wb.ProductionWellFlowRates.value))))
    for sec in (S_SUM, S_ENG):
        put(sec, 'Number of Production Wells', wb.nprod.value, 'count')
        put(sec, 'Number of Injection Wells', wb.ninj.value, 'count')
        put(sec, 'Lifetime Average Well Flow Rate', flow, wb.ProductionWellFlowRates.CurrentUnits)
        put(sec, 'Well depth', rs.depth.value, rs.depth.CurrentUnits)
    em = cfg['econ']
    if em == 1:
        put(S_ECO, 'Fixed Charge Rate (FCR)', ec.FCR.value, ec.FCR.CurrentUnits)
    elif em == 2:
        put(S_ECO, 'Interest Rate', ec.interest_rate.value, ec.interest_rate.CurrentUnits)
    put(S_ECO, 'Accrued financing during construction', ec.inflrateconstruction.value, ec.inflrateconstruction.CurrentUnits)
    put(S_ECO, 'Project lifetime', sp.plant_lifetime.value, sp.plant_lifetime.CurrentUnits)
    put(S_ENG, 'Pump efficiency', sp.pump_efficiency.value, sp.pump_efficiency.CurrentUnits)
    put(S_ENG, 'Injection well casing ID', wb.injwelldiam.value, wb.injwelldiam.CurrentUnits)
    put(S_ENG, 'Production well casing ID', wb.prodwelldiam.value, wb.prodwelldiam.CurrentUnits)
    for nm, prm in (('Storage Well Temperature', wb.ProducedTemperature), ('Balance Well Temperature', wb.Tinj),
                    ('Annual Heat Stored', rs.AnnualHeatStored), ('Annual Heat Supplied', rs.AnnualHeatSupplied)):
        arr = _a(prm.value)
        put(S_SIM, 'Maximum ' + nm, float(arr.max()), prm.CurrentUnits)
        put(S_SIM, 'Average ' + nm, float(arr.mean()), prm.CurrentUnits)
        put(S_SIM, 'Minimum ' + nm, float(arr.min()), prm.CurrentUnits)
    put(S_SIM, 'Average Round-Trip Efficiency', float(np.mean(_a(rs.AnnualRTESEfficiency.value))), rs.AnnualRTESEfficiency.CurrentUnits)
    put(S_SIM, 'Total Average Pressure Drop', float(np.mean(_a(wb.DPOverall.value))), wb.DPOverall.CurrentUnits)
    for lab, prm in (('Average RTES Heating Production', sp.HeatProduced), ('Average Auxiliary Heating Production', sp.AuxiliaryHeatProduced),
                     ('Average Annual RTES Heating Production', sp.AnnualHeatProduced),
                     ('Average Annual Auxiliary Heating Production', sp.AnnualAuxiliaryHeatProduced),
                     ('Average Annual Total Heating Production', sp.AnnualTotalHeatProduced),
                     ('Average Annual Electricity Use for Pumping', sp.PumpingkWh)):
        put(S_SUR, lab, float(np.mean(_a(prm.value))), prm.CurrentUnits)
    put(S_SUR, 'Average Pumping Power', float(np.mean(_a(wb.PumpingPower.value))), wb.PumpingPower.CurrentUnits)
    put(S_CAP, 'Drilling and Completion Costs', ec.Cwell.value, ec.Cwell.CurrentUnits)
    c1p, c1i = float(ec.cost_one_production_well.value), float(ec.cost_one_injection_well.value)
    if c1p != c1i:
        put(S_CAP, 'Drilling and completion costs per production well', c1p, ec.cost_one_production_well.CurrentUnits)
        put(S_CAP, 'Drilling and completion costs per injection well', c1i, ec.cost_one_injection_well.CurrentUnits)
    else:
        put(S_CAP, 'Drilling and Completion Costs per Well', float(ec.Cwell.value) / (int(wb.nprod.value) + int(wb.ninj.value)),
            ec.Cwell.CurrentUnits)
    put(S_CAP, 'Auxiliary Heater Cost', ec.peakingboilercost.value, ec.peakingboilercost.CurrentUnits)
    if ec.has('Cpumps'):
        put(S_CAP, 'Pump Cost', float(ec.Cpumps), ec.peakingboilercost.CurrentUnits)
    put(S_CAP, 'Total Capital Costs', ec.CCap.value, ec.CCap.CurrentUnits)
    put(S_OAM, 'Average annual auxiliary fuel cost', float(np.mean(_a(ec.annualngcost.value))), ec.annualngcost.CurrentUnits)
    put(S_OAM, 'Average annual pumping cost', float(np.mean(_a(ec.annualpumpingcosts.value))), ec.annualpumpingcosts.CurrentUnits)
    put(S_OAM, 'Total average annual O&M costs', float(np.mean(_a(ec.Coam.value))), ec.Coam.CurrentUnits)
    return M


def expected_tables(s, cfg):
    """title -> (rows of expected cell values, per-column unit-conversion spec or None)."""
    sp, wb, rs, ec = s.surfaceplant, s.wellbores, s.reserv, s.economics
    eu, pt, L, cy = cfg['enduse'], cfg['ptype'], cfg['life'], cfg['cy']
    steps = int(ec.timestepsperyear.value)
    T = {}
    if s.classes.get('outputs') == 'SUTRAOutputs':
        return T                         # the SUTRA writer prints no profile tables
    tp = _a(wb.ProducedTemperature.value)
    pp = _a(wb.PumpingPower.value)
    idx = [i * steps for i in range(L)]
    plant = s.classes['surfaceplant']
    rows = []
    if eu == 1:
        ne = _a(sp.NetElectricityProduced.value)
        fle = _a(sp.FirstLawEfficiency.value)
        rows = [[i + 1, tp[k] / tp[0], tp[k], pp[k], ne[k], fle[k] * 100] for i, k in enumerate(idx)]
    elif eu == 2 and plant == 'SurfacePlantHeatPump':
        hp, hu = _a(sp.HeatProduced.value), _a(sp.heat_pump_electricity_used.value)
        rows = [[i, tp[k] / tp[0], tp[k], pp[k], hp[k], hu[k]] for i, k in enumerate(idx)]
    elif eu == 2 and plant == 'SurfacePlantAbsorptionChiller':
        hp, cp = _a(sp.HeatProduced.value), _a(sp.cooling_produced.value)
        rows = [[i, tp[k] / tp[0], tp[k], pp[k], hp[k], cp[k]] for i, k in enumerate(idx)]
    elif eu == 2:
        hp = _a(sp.HeatProduced.value)
        rows = [[i, tp[k] / tp[0], tp[k], pp[k], hp[k]] for i, k in enumerate(idx)]
    elif eu in COGEN:
        ne, hp, fle = _a(sp.NetElectricityProduced.value), _a(sp.HeatProduced.value), _a(sp.FirstLawEfficiency.value)
        rows = [[i, tp[k] / tp[0], tp[k], pp[k], ne[k], hp[k], fle[k] * 100] for i, k in enumerate(idx)]
    T[T_PROD] = rows
    hx = _a(sp.HeatkWhExtracted.value) / 1e6
    rem = _a(sp.RemainingReservoirHeatContent.value)
    init = float(rs.InitialReservoirHeatContent.value)
    with np.errstate(all='ignore'):
        pct = (init - rem) * 100 / init
    if eu == 1:
        nk = _a(sp.NetkWhProduced.value) / 1e6
        rows = [[i + 1, nk[i], hx[i], rem[i], pct[i]] for i in range(L)]
    elif plant == 'SurfacePlantAbsorptionChiller' and pt == 5:
        ck = _a(sp.cooling_kWh_Produced.value) / 1e6
        rows = [[i + 1, ck[i], hx[i], rem[i], pct[i]] for i in range(L)]
    elif plant == 'SurfacePlantHeatPump' and pt == 6:
        hk, ek = _a(sp.HeatkWhProduced.value) / 1e6, _a(sp.heat_pump_electricity_kwh_used.value) / 1e6
        rows = [[i + 1, hk[i], hx[i], ek[i], rem[i], pct[i]] for i in range(L)]
    elif eu in COGEN:
        hk, nk = _a(sp.HeatkWhProduced.value) / 1e6, _a(sp.NetkWhProduced.value) / 1e6
        rows = [[i + 1, hk[i], nk[i], hx[i], rem[i], pct[i]] for i in range(L)]
    elif plant == 'SurfacePlantDistrictHeating' and pt == 7:
        hk, ng = _a(sp.HeatkWhProduced.value) / 1e6, _a(sp.annual_ng_demand.value) / 1e3
        rows = [[i + 1, hk[i], ng[i], hx[i], rem[i], pct[i]] for i in range(L)]
    else:
        hk = _a(sp.HeatkWhProduced.value) / 1e6
        rows = [[i + 1, hk[i], hx[i], rem[i], pct[i]] for i in range(L)]
    T[T_ANN] = rows
    # revenue & cash flow: prices are shown in the preferred unit (cents/kWh) of the price outputs
    def price(p):
        v = _a(p.value)
        target = s.input_values.get('Units:' + p.Name)            # an output-unit directive names the unit to show
        target = target.strip() if isinstance(target, str) and target.strip() else None
        if target is None and p.CurrentUnits != p.PreferredUnits:
            target = p.PreferredUnits
        if target is not None and target != p.CurrentUnits:
            v = np.asarray([U.convert(float(x), p.CurrentUnits, target) for x in v])
        return v
    n = cy + L
    if all(len(_a(getattr(ec, a).value)) == n for a in ('ElecPrice', 'HeatPrice', 'CoolingPrice', 'CarbonPrice', 'TotalRevenue')):
        cols = [price(ec.ElecPrice), _a(ec.ElecRevenue.value), _a(ec.ElecCummRevenue.value),
                price(ec.HeatPrice), _a(ec.HeatRevenue.value), _a(ec.HeatCummRevenue.value),
                price(ec.CoolingPrice), _a(ec.CoolingRevenue.value), _a(ec.CoolingCummRevenue.value),
                price(ec.CarbonPrice), _a(ec.CarbonRevenue.value), _a(ec.CarbonCummCashFlow.value)]
        coam = float(ec.Coam.value)
        tr, tc = _a(ec.TotalRevenue.value), _a(ec.TotalCummRevenue.value)
        T[T_REV] = [[ii] + [float(c[ii]) for c in cols] + [0.0 if ii < cy else coam, tr[ii], tc[ii]] for ii in range(n)]
    if wb.overpressure_percentage.Provided:
        ppd, pin = _a(wb.PumpingPowerProd.value), _a(wb.PumpingPowerInj.value)
        if ppd.ndim == 1 and pin.ndim == 1 and len(ppd) == len(pp) == len(pin):
            T[T_OVP] = [[i + 1, ppd[k], pin[k], pp[k]] for i, k in enumerate(idx)]
    if cfg['addons']:
        ae = s.addeconomics
        if float(ae.AddOnCAPEXTotal.value) + float(ae.AddOnOPEXTotalPerYear.value) != 0:
            # one row per simulated (and construction) year, in order: construction years then operating years
            # this table prints the price objects as they stand: raw (USD/kWh) unless an output-unit directive converted them

            def price_as_it_stands(p):
                target = s.input_values.get('Units:' + p.Name)
                target = target.strip() if isinstance(target, str) and target.strip() else None
                v = _a(p.value)
                if target is not None and target != p.CurrentUnits:
                    v = np.asarray([U.convert(float(x), p.CurrentUnits, target) for x in v])
                return v
            ep, hp_ = price_as_it_stands(ec.ElecPrice), price_as_it_stands(ec.HeatPrice)
            aer, ahr, ar = _a(ae.AddOnElecRevenue.value), _a(ae.AddOnHeatRevenue.value), _a(ae.AddOnRevenue.value)
            acf, acc = _a(ae.AddOnCashFlow.value), _a(ae.AddOnCummCashFlow.value)
            pcf, pcc = _a(ae.ProjectCashFlow.value), _a(ae.ProjectCummCashFlow.value)
            rows = []
            for ii in range(n):
                op = ii - cy
                rows.append([ii + 1, ep[ii], aer[op] if op >= 0 else 0.0, hp_[ii], ahr[op] if op >= 0 else 0.0,
                             ar[op] if op >= 0 else 0.0, acf[ii], acc[ii], pcf[ii], pcc[ii]])
            T[T_EXT] = rows
            # the known F11 defect has a recognisable signature: cy + L - 1 rows, operating-year revenue series indexed by the
            # row number (i.e. paired with construction-padded prices). Only a table that matches it cell for cell is F11.
            try:
                T['__F11_signature__'] = [[ii + 1, ep[ii], aer[ii], hp_[ii], ahr[ii], ar[ii], acf[ii], acc[ii], pcf[ii], pcc[ii]]
                                          for ii in range(n - 1)]
            except IndexError:
                pass
    if cfg['sdac']:
        sd = s.sdacgteconomics
        ca, cc = _a(sd.CarbonExtractedAnnually.value), _a(sd.S_DAC_GTCummCarbonExtracted.value)
        ac, cf, cp = _a(sd.S_DAC_GTAnnualCost.value), _a(sd.S_DAC_GTCummCashFlow.value), _a(sd.CummCostPerTonne.value)
        if all(x.ndim == 1 and len(x) >= L for x in (ca, cc, ac, cf, cp)):
            T[T_SDAC] = [[i + 1, ca[i], cc[i], ac[i], cf[i], cp[i]] for i in range(L)]
    return T


FRACTION_AS_PERCENT = {(S_ECO, 'Fixed Charge Rate (FCR)'), (S_ECO, 'Accrued financing during construction'),
                       (S_ENG, 'Water loss rate'), (S_RPA, 'Reservoir porosity'), (S_RPA, 'Annual Thermal Drawdown'),
                       (S_ECO, 'CHP: Percent cost allocation for electrical plant'),
                       (S_SUR, 'Initial pumping power/net installed power'), (S_ECO, 'Capacity factor')}


def c09(mon, s, report_text):
    if not report_text:
        mon.inconclusive('labelled-line', 'no-report')
        return
    M, cfg, std = build_map(s)
    if not std:
        mon.note('c09-skip-nonstandard-writer:' + str(s.classes.get('outputs')) + '/' + str(s.classes.get('economics')))
        return
    lines, tables, info = RP.tokenize(report_text)
    seen = set()
    for ln in lines:
        key = (ln.section, ln.label)
        if ln.section in ('CASE REPORT', 'HEADER'):
            continue
        if key not in M:
            mon.note('unmapped:' + ln.section + '/' + ln.label)
            continue
        seen.add(key)
        exp_v, exp_u = M[key]
        _judge_line(mon, ln, key, exp_v, exp_u)
    for key in M:
        if key not in seen:
            mon.bad('line-present', mechanism='C09/mapped-line-missing-from-report:' + key[0] + '/' + key[1], key=list(key))
        else:
            mon.ok('line-present')
    # ---- profile tables
    ET = expected_tables(s, cfg)
    bytitle = {}
    for t in tables:
        bytitle.setdefault(t.title, []).append(t)
    f11 = ET.pop('__F11_signature__', None)
    for title, rows in ET.items():
        ts = bytitle.get(title)
        if not ts:
            mon.bad('table-present', mechanism='C09/profile-table-missing:' + title, title=title)
            continue
        mon.ok('table-present')
        _judge_table(mon, title, ts[0], rows, cfg, f11 if title == T_EXT else None)
    for title in bytitle:
        if title not in ET:
            mon.note('unmapped-table:' + title)
    mon.note('c09-nontrivial')


def _judge_line(mon, ln, key, exp_v, exp_u):
    clause = 'labelled-line'
    if exp_v is None:
        mon.check(clause, ln.text == 'N/A', mechanism='C09/expected-N/A:' + key[1], printed=ln.text)
        return
    if ln.value is None:
        mon.bad(clause, mechanism='C09/N/A-printed-for-a-computed-quantity:' + key[1], expected=float(exp_v))
        return
    ev = float(exp_v)
    pu = ln.unit
    # 1. same unit text (after aliasing), or convertible
    try:
        want = U.convert(ev, exp_u or '', pu or '')
    except ValueError:
        want = None
    if want is not None and RP.printed_matches(ln.text, ln.decimals, ln.sci, want):
        mon.ok(clause)
        return
    # fraction shown x100: legitimate when the printed label says percent, a labelling defect when it does not
    if U.norm(exp_u or '') == 'dimensionless' and RP.printed_matches(ln.text, ln.decimals, ln.sci, ev * 100.0):
        if U.norm(pu) == 'percent':
            mon.ok(clause)
        else:
            mon.bad(clause, mechanism='C09/fraction-printed-as-percent-figure-under-a-non-percent-label:' + key[1], label=key[1],
                    printed=ln.text, unit=pu, computed=ev)
        return
    if U.norm(pu) != 'percent' and RP.printed_matches(ln.text, ln.decimals, ln.sci, ev * 100.0) and ev != 0.0:
        mon.bad(clause, mechanism='C09/fraction-printed-as-percent-figure-under-a-non-percent-label:' + key[1], label=key[1],
                printed=ln.text, unit=pu, computed=ev, computed_unit=exp_u)
        return
    if U.norm(exp_u or '') == 'percent' and U.norm(pu) == 'percent' and RP.printed_matches(ln.text, ln.decimals, ln.sci, ev * 100.0):
        # value held as a fraction although its declared unit is % (e.g. utilisation factor): figure x100 under a % label
        mon.ok(clause)
        mon.note('c09-fraction-declared-percent:' + key[1])
        return
    mon.bad(clause, mechanism='C09/printed-figure-differs-from-computed:' + key[0] + '/' + key[1], label=key[1], printed=ln.text,
            printed_unit=pu, computed=ev, computed_unit=exp_u, converted=want)


def _matches(t, rows):
    if rows is None or len(t.rows) != len(rows):
        return False
    for pr, er, pc in zip(t.rows, rows, t.cells):
        if len(pr) != len(er):
            return False
        for ci in range(1, len(er)):
            dec, sci = RP.decimals_of(pc[ci])
            if not RP.printed_matches(pc[ci], dec, sci, float(er[ci])):
                return False
    return True


def _judge_table(mon, title, t, rows, cfg, f11=None):
    is_f11 = title == T_EXT and _matches(t, f11)
    if len(t.rows) != len(rows):
        mech = 'C09/profile-row-count:' + title
        if is_f11:
            mech = 'C09/extended-economic-profile-row-count-and-alignment'
        mon.bad('table-rows', mechanism=mech, title=title, printed_rows=len(t.rows), expected_rows=len(rows),
                cy=cfg['cy'], life=cfg['life'])
        return
    mon.ok('table-rows')
    # year labels consecutive, in order (base 0 or 1 is not judged)
    years = [r[0] for r in t.rows]
    ok = all(y is not None for y in years) and all(abs((years[i + 1] - years[i]) - 1) < 1e-9 for i in range(len(years) - 1))
    mon.check('table-years-consecutive', ok, mechanism='C09/profile-years-not-consecutive:' + title, years=years[:6])
    bad = None
    ncell = 0
    for ri, (pr, er, pc) in enumerate(zip(t.rows, rows, t.cells)):
        if len(pr) != len(er):
            bad = {'row': ri, 'printed_cols': len(pr), 'expected_cols': len(er)}
            break
        for ci in range(1, len(er)):
            dec, sci = RP.decimals_of(pc[ci])
            ncell += 1
            if not RP.printed_matches(pc[ci], dec, sci, float(er[ci])):
                bad = {'row': ri, 'col': ci, 'printed': pc[ci], 'computed': float(er[ci])}
                break
        if bad:
            break
    mech = 'C09/profile-cell-differs-from-computed:' + title
    if is_f11 and bad:
        mech = 'C09/extended-economic-profile-row-count-and-alignment'
    mon.check('table-cells', bad is None, mechanism=mech, title=title, detail=bad)
    if bad is None:
        mon.ok('table-cells-count', ncell)
